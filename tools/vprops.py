"""Per-property checks (see DESIGN.md §6).  Each CHECKS[id](ctx) returns the process exit code."""
import json, os, re, subprocess, sys, time
import vbuild
from vbuild import VERIF, REPO, CACHE, LEAN, NPROC
import vcheck as V

CORPUS = os.path.join(VERIF, 'corpus', 'fens.txt')
REGRESS = os.path.join(VERIF, 'corpus', 'regress')
KERNEL = 'Lean 4.33.0 kernel (lake build re-checks every theorem whose inputs changed)'
TB_COMMON = [KERNEL, 'axioms: propext, Classical.choice, Quot.sound only (audited by #print axioms on every run)',
             'translator tools/gen_lean.py + harness/cppdrv dump (Gen/*.lean)', 'canonicalising drivers harness/cppdrv.cpp and lean/Driver.lean',
             'g++ 12 / libstdc++ semantics of the mirrored operations']

# theorem registry: property -> [(module, [theorem names])]
THEOREMS = {
    'C11': [('ChessVerif.Props.C11', ['Chess.Props.C11_slider', 'Chess.Props.C11_leapers', 'Chess.Props.C11_lines', 'Chess.Props.C11_pawn']), ('ChessVerif.Props.C11Mirror', ['Chess.Props.C11_slider_mirror', 'Chess.Props.C11_attacked_squares_mirror'])],
    'C01': [('ChessVerif.Props.C01', ['Chess.Props.C01_movegen_exact', 'Chess.Props.C01_exact', 'Chess.Props.C01_perft', 'Chess.Props.C01_reachable', 'Chess.Props.C01_exact_noep', 'Chess.Props.C01_unpinned_legal', 'Chess.Props.C01_no_duplicates', 'Chess.Props.C01_move_shape', 'Chess.Props.C01_king_moves_exact', 'Chess.Props.C01_castling_exact', 'Chess.Props.C01_castling_emitted',
                                     'Chess.Props.C01_forbidden_squares', 'Chess.Props.C01_forbidden_nocheck', 'Chess.Props.C01_in_check_test',
                                     'Chess.Props.C01_leaper_geometry_partial', 'Chess.Props.C01_slider_geometry_partial', 'Chess.Props.C01_castling_paths_partial',
                                     'Chess.Props.C01_king_moves_partial', 'Chess.Props.C01_pins_partial'])],
    'C02': [('ChessVerif.Props.C02', ['Chess.Props.C02_game', 'Chess.Props.C02_wf_invariant', 'Chess.Props.C02_reachable_wf', 'Chess.Props.C02_full', 'Chess.Props.C02_replay_legal', 'Chess.Props.C02_step', 'Chess.Props.C02_replay', 'Chess.Props.C02_castling_clock']),
            ('ChessVerif.Lemmas.OKDec', ['Chess.specHypothesesHold_sound'])],
    'C03': [('ChessVerif.Props.C03', ['Chess.Props.C03_full', 'Chess.Props.C03_undo_do', 'Chess.Props.C03_undo_null', 'Chess.Props.C03_nested', 'Chess.Props.C03_observables',
                                     'Chess.Props.C03_key_after_legal']),
            ('ChessVerif.Lemmas.OKDec', ['Chess.hypothesesHold_sound'])],
    'C04': [('ChessVerif.Props.C04', ['Chess.Props.C04_key_inv', 'Chess.Props.C04_scratch_is_init', 'Chess.Props.C04_same_pos_same_key', 'Chess.Props.C04_pawn_key'])],
    'C05': [('ChessVerif.Props.C05', ['Chess.Props.C05_bestmove', 'Chess.Props.C05_bestmove_generated', 'Chess.Props.C05_bestmove_legal', 'Chess.Props.C05_pv_legal', 'Chess.Props.C05_pv_legal_rules'])],
    'C06': [('ChessVerif.Props.C06', ['Chess.Props.C06_one_bestmove', 'Chess.Props.C06_stop_not_lost', 'Chess.Props.C06_isready', 'Chess.Props.C06_race_free'])],
    'C07': [('ChessVerif.Props.C07', ['Chess.Props.C07_repetition_keys', 'Chess.Props.C07_repetition', 'Chess.Props.C07_rule50', 'Chess.Props.C07_draw', 'Chess.Props.C07_mate_stalemate', 'Chess.Props.C07_mate_stalemate_exact', 'Chess.Props.C07_reachable',
                                     'Chess.Props.C07_check', 'Chess.Props.C07_attacked', 'Chess.Props.C07_check_after_move', 'Chess.Props.C07_material', 'Chess.Props.C07_geometry']),
            ('ChessVerif.Lemmas.OKDec', ['Chess.check_eq_of_hypotheses', 'Chess.material_eq_of_hypotheses'])],
    'C08': [('ChessVerif.Props.C08', ['Chess.Props.C08_distance', 'Chess.Props.C08_printed', 'Chess.Props.C08_ranges_disjoint'])],
    'C09': [('ChessVerif.Props.C09', ['Chess.Props.C09_depths', 'Chess.Props.C09_searchmoves', 'Chess.Props.C09_depth_index'])],
    'C10': [('ChessVerif.Props.C10', ['Chess.Props.C10_history', 'Chess.Props.C10_history_cap', 'Chess.Props.C10_iteration_index', 'Chess.Props.C10_pins',
                                     'Chess.Props.C10_capacities', 'Chess.Props.C10_piece_lists'])],
    'C12': [('ChessVerif.Props.C12', ['Chess.Props.C12_kpk', 'Chess.Props.C12_mirror', 'Chess.Props.C12_certificate', 'Chess.Props.C12_index', 'Chess.Props.C12_normalize'])],
    'C13': [('ChessVerif.Props.C13', ['Chess.Props.C13_geometry', 'Chess.Props.C13_normSq_mirror', 'Chess.Props.C13_combine_neg', 'Chess.Props.C13_phase_symm']),
            ('ChessVerif.Props.C13General', ['Chess.Props.C13_general_branch', 'Chess.Props.C13_no_endgame', 'Chess.Props.C13_kpk', 'Chess.Props.C13_simple_endgame', 'Chess.Props.C13_single_piece_endgame', 'Chess.Props.C13_pair_endgame', 'Chess.Props.C13_class_of_value', 'Chess.Props.C13_endgame_dispatch_mirror', 'Chess.Props.C13_evalPure_partial']),
            ('ChessVerif.Props.C13Mirror', ['Chess.Props.C13_pawn_score_mirror', 'Chess.Props.C13_king_safety_mirror', 'Chess.Props.C13_king_shelter_mirror', 'Chess.Props.C13_pawn_attacks_mirror', 'Chess.Props.C13_guard_phase_wf', 'Chess.Props.C13_counts_mirror', 'Chess.Props.C13_phase_mirror', 'Chess.Props.C13_material_mirror', 'Chess.Props.C13_king_mirror', 'Chess.Props.C13_king_distance_mirror', 'Chess.Props.C13_bitboards_mirror'])],
    'C14': [('ChessVerif.Props.C14', ['Chess.Props.C14_cache_transparent', 'Chess.Props.C14_bounded', 'Chess.Props.C14_reachable', 'Chess.Props.C14_constants', 'Chess.Props.C14_cap_partial'])],
    'C15': [('ChessVerif.Props.C15', ['Chess.Props.C15_capture_quiet_full', 'Chess.Props.C15_gives_check_full', 'Chess.Props.C15_reachable', 'Chess.Props.C15_gives_check_noncastle', 'Chess.Props.C15_gives_check', 'Chess.Props.C15_gives_check_ordinary', 'Chess.Props.C15_quiet', 'Chess.Props.C15_castling', 'Chess.Props.C15_capture_rules'])],
    'C17': [('ChessVerif.Props.C17', ['Chess.Props.C17_legal_rules', 'Chess.Props.C17_unambiguous', 'Chess.Props.C17_reachable', 'Chess.Props.C17_roundtrip_wf', 'Chess.Props.C17_roundtrip', 'Chess.Props.C17_matcher_piece', 'Chess.Props.C17_matcher_pawn', 'Chess.Props.C17_castling'])],
    'C18': [('ChessVerif.Props.C18', ['Chess.Props.C18_tables', 'Chess.Props.C18_anchors', 'Chess.Props.C18_pieces', 'Chess.Props.C18_key_noep', 'Chess.Props.C18_key'])],
    'C16': [('ChessVerif.Props.C16', ['Chess.Props.C16_encoding', 'Chess.Props.C16_encoding_move', 'Chess.Props.C16_castle_code', 'Chess.Props.C16_moveinfo',
                                     'Chess.Props.C16_uci_text', 'Chess.Props.C16_uci_plain', 'Chess.Props.C16_uci_castle']),
            ('ChessVerif.Props.C16Full', ['Chess.Props.C16_fen_roundtrip', 'Chess.Props.C16_fen_roundtrip_key', 'Chess.Props.C16_uci_roundtrip_wf', 'Chess.Props.C16_uci_legal_rules', 'Chess.Props.C16_reachable'])],
    'C19': [('ChessVerif.Props.C19', ['Chess.Props.C19_load', 'Chess.Props.C19_load_count', 'Chess.Props.C19_best', 'Chess.Props.C19_random',
                                     'Chess.Props.C19_random_never_zero', 'Chess.Props.C19_decode'])],
    'C20': [('ChessVerif.Props.C20', ['Chess.Props.C20_bounds', 'Chess.Props.C20_monotone'])],
}


def thm(pid):
    return THEOREMS.get(pid, [])


def checker_cmd(pid):
    mods = ' '.join(m for m, _ in thm(pid))
    return f'cd {LEAN} && lake build {mods} leandrv  # then #print axioms on each listed theorem (tools/vbuild.py print_axioms)'


# ------------------------------------------------------------------ projections with op awareness
def state_fields(fields):
    def p(line, side):
        if not line.startswith('fen='):
            return None
        d = V.parse_state(line)
        return '|'.join(f'{k}={d.get(k)}' for k in fields)
    return p


def moves_fields(keys, kinds=('moves', 'gen')):
    def p(line, side):
        k = line.split(' ', 1)[0]
        if k not in kinds:
            return None
        hdr, rows = V.parse_moves(line)
        out = [f"n={hdr.get('n')} dup={hdr.get('dup')}"]
        for r in rows:
            if 'pp' in r:
                pp = (r['pp'] + '??')[:2]
                r['pu'], r['ps'] = pp[0], pp[1]
            out.append(':'.join(r.get(x, '') for x in keys))
        return ' '.join(out)
    return p


def play_chunks(ctx, ngames, maxplies, detail_every, seed_off=0):
    text = V.lean_gen(ctx.drv, ['play', ctx.seed * 1000 + seed_off, ngames, maxplies, detail_every, CORPUS])
    head, games = V.split_games(text)
    return V.chunked(head, games, NPROC * 2)


def lab_chunks(ctx, n, seed_off=0, full=False):
    text = V.lean_gen(ctx.drv, ['labfull' if full else 'lab', ctx.seed * 1000 + 17 + seed_off, n])
    head, games = V.split_games(text)
    return V.chunked(head, games, NPROC * 2)


def regress_chunks(pid):
    out = []
    p = os.path.join(REGRESS, pid + '.scn')
    if os.path.exists(p):
        out.append(open(p).read())
    p = os.path.join(REGRESS, 'common.scn')
    if os.path.exists(p):
        out.append(open(p).read())
    return out


def hunt_if_needed(ctx, proof_ok, label, hunt):
    """step 5 of DESIGN §2.4: a proof obligation no longer checks -> search for a concrete failing input."""
    if proof_ok:
        return
    if not any(v['concrete'] for v in ctx.violations):
        hunt()
    if not any(v['concrete'] for v in ctx.violations):
        names = []
        for f in ctx.theorem_failures:
            names += f.get('modules', []) + ([f['theorem']] if 'theorem' in f else []) + (['audit: ' + '; '.join(f['audit'][:3])] if 'audit' in f else [])
        txt = 'proof obligation(s) no longer check: ' + ', '.join(names) + '\n' + '\n'.join(f.get('log', '')[-1500:] for f in ctx.theorem_failures)
        V.report_violation(ctx, f'{label}: {", ".join(names)} no longer checks; no-failing-input-found', txt, False, ident=txt)


def play_family(ctx, label, proj, spec_proj, sizes, level_expl, nontrivial=None, extra=None, assumptions=()):
    pid = ctx.pid
    ok = V.prepare(ctx, thm(pid))
    q = sizes[ctx.tier]
    ctx.trusted = TB_COMMON
    ctx.assumptions = list(assumptions)
    ctx.cov['rule'] = (f'random legal games generated by the Lean SPEC (biased to captures/castling/ep/promotions/double pushes, with do/undo '
                       f'excursions, null moves and move reversals) from {CORPUS}; {q[0]} games x <= {q[1]} plies; every op is run through the C++ '
                       f'(ASan+UBSan), the Lean model and the Lean spec; distinct = distinct projected observable lines of this property')
    chunks = regress_chunks(pid) + play_chunks(ctx, q[0], q[1], q[2]) + lab_chunks(ctx, q[3], full=(q[2] == 1))
    ctx.cov['rule'] += (f'; plus {q[3]} constructive "lab" positions (castling rights x rook captures, en passant x pins/rank discoveries on all files, '
                        f'promotions with capture targets, sparse slider positions; kept iff Spec.wf) with EVERY legal move done and undone')
    V.three_way(ctx, chunks, proj, label, spec_proj=spec_proj, nontrivial=nontrivial)
    if extra:
        extra(ctx)

    def hunt():
        big = play_chunks(ctx, q[0] * 3, q[1], q[2], seed_off=7) + lab_chunks(ctx, q[3] * 4, seed_off=5, full=True)
        V.three_way(ctx, big, proj, label + ' (hunt)', spec_proj=spec_proj)
    hunt_if_needed(ctx, ok, label, hunt)
    return V.finish(ctx, 'proof', thm(pid), level_expl, checker_cmd(pid))


SZ = {'quick': (96, 100, 5, 500), 'thorough': (1600, 300, 4, 12000)}
SZ_MOVES = {'quick': (64, 80, 1, 300), 'thorough': (1600, 300, 1, 8000)}


def uci_glue_extra(pid, then=None):
    """sessions over the engine's real UCI command loop (tools/uci_glue.py); reports what belongs to property pid"""
    def f(ctx):
        import uci_glue
        n = uci_glue.run(ctx, pid, 10 if ctx.tier == 'quick' else 160)
        ctx.cov['rule'] += (f'; plus {n} scripted sessions over the REAL UCI command loop (position…moves / moves / printboard / hash / perft / '
                            'go depth·searchmoves·clock), judged against the rules specification (tools/uci_glue.py)')
        if then:
            then(ctx)
    return f


def uci_book_extra(pid):
    def f(ctx):
        import uci_glue
        n = uci_glue.run_book(ctx, pid, 8 if ctx.tier == 'quick' else 120)
        ctx.cov['rule'] += (f'; plus {n} sessions over the REAL UCI loop with an opening book written for the game (setoption Polyglot Book, position / moves / '
                            'ucinewgame, go): the book move with the highest weight must be answered without a search (tools/uci_glue.py)')
    return f


def perft_extra(depth_quick, depth_thorough):
    def f(ctx):
        fens = [l.strip() for l in open(CORPUS) if l.strip() and not l.startswith('#')]
        d = depth_quick if ctx.tier == 'quick' else depth_thorough
        step = 6 if ctx.tier == 'quick' else 1
        sel = fens[ctx.seed % step::step]
        texts = []
        per = max(1, len(sel) // (NPROC * 2))
        for i in range(0, len(sel), per):
            texts.append(''.join(f'pos {x}\nperft {d}\n' for x in sel[i:i + per]))
        V.three_way(ctx, texts, lambda l, s: l if l.startswith('perft ') else None, f'perft depth {d}')
        ctx.count('perft_positions', len(sel))
    return f


def check_C01(ctx):
    return play_family(ctx, 'legal move set', moves_fields(['uci']), moves_fields(['uci']), SZ_MOVES,
                       'theorems in Props/C01.lean (see DESIGN §6 C01 for which part of the full statement is proved) + three-way differential '
                       'C++ / model / rules-spec on the sorted legal move set incl. duplicate count, and perft through do/undo',
                       extra=uci_glue_extra('C01', perft_extra(2, 3)), assumptions=['positions are Spec.wf (one-ply retro-legal)'])


def check_C02(ctx):
    return play_family(ctx, 'position after a move', state_fields(['fen', 'sync']), state_fields(['fen', 'sync']), SZ,
                       'theorems in Props/C02.lean + three-way differential on all six FEN fields after every do/undo/null, and the C++\'s three '
                       'redundant placements checked against each other at every step (sync)',
                       extra=uci_glue_extra('C02'), assumptions=['Spec.wf positions', 'half-move clock < 65535 (uint16_t after the clock fix)'])


def eval_after_undo_extra(ctx):
    """C03 through the evaluator: anything derived from the position (the static evaluation reads the piece lists, the bitboards,
    the keys of the pawn cache …) must be the same again after a move has been made and unmade — also when the internal order of a
    piece list is the only thing that could differ.  Lab positions, every legal move done and undone, `eval` by a fresh evaluator
    before and after; judged on the implementation alone."""
    text = V.lean_gen(ctx.drv, ['lab', ctx.seed * 1000 + 313, 80 if ctx.tier == 'quick' else 1500])
    ops = []
    for l in text.splitlines():
        if l.startswith('pos '):
            ops.append(l); ops.append('eval')
        elif l.startswith(('do ', 'undo', 'null', 'unnull', 'ztab')):
            ops.append(l)
            if l.startswith(('undo', 'unnull')):
                ops.append('eval')
    # chunk at `pos` boundaries
    chunks, cur = [], []
    for l in ops:
        if l.startswith('pos ') and len(cur) > 400:
            chunks.append('\n'.join(cur) + '\n'); cur = []
        cur.append(l)
    if cur:
        chunks.append('\n'.join(cur) + '\n')
    from concurrent.futures import ThreadPoolExecutor

    def work(t):
        return t, V.run_cpp(ctx.exe, t)
    nbad = 0
    with ThreadPoolExecutor(max_workers=NPROC) as ex:
        for t, (rc, C, err) in ex.map(work, chunks):
            tl = t.splitlines()
            depth, root, start = 0, None, 0
            for i, op in enumerate(tl):
                if i >= len(C):
                    break
                if op.startswith('pos '):
                    depth, root, start = 0, None, i
                elif op.startswith(('do ', 'null')):
                    depth += 1
                elif op.startswith(('undo', 'unnull')):
                    depth -= 1
                elif op == 'eval' and C[i].startswith('eval'):
                    ctx.cov['evaluations'] += 1
                    ctx.count('eval_before_after_undo')
                    if depth == 0:
                        if root is None:
                            root = C[i]
                        elif C[i] != root and nbad < 2:
                            nbad += 1
                            V.report_violation(ctx, f'the static evaluation of the same position is {root} before a move is made and unmade and {C[i]} afterwards',
                                               '\n'.join(tl[start:i + 1]) + f'\n# before: {root}\n# after : {C[i]}\n', True, ident='evalundo ' + tl[start])
                            root = C[i]


def check_C03(ctx):
    allf = ['fen', 'key', 'pkey', 'chk', 'mate', 'stale', 'rep', 'three', 'r50', 'mat', 'draw', 'poly', 'hist', 'sync']
    base = state_fields(allf)
    bases = state_fields([f for f in allf if f != 'hist'])
    mv = moves_fields(['uci', 'code', 'san', 'cqk', 'pp'])
    mvs = moves_fields(['uci', 'code', 'cqk'])
    return play_family(ctx, 'observables after unmake', V.proj_any(base, mv), V.proj_any(bases, mvs), SZ,
                       'theorems in Props/C03.lean + three-way differential on every observable after every undo (the spec side restores a saved '
                       'snapshot, so agreement means the implementation restored everything), nested excursions up to depth 4 (quick); plus the static '
                       'evaluation (which reads piece lists, bitboards and cache keys) before and after every make/unmake excursion of the lab positions',
                       extra=lambda c: (perft_extra(2, 3)(c), eval_after_undo_extra(c), search_restores_extra(c)), assumptions=['Spec.wf positions'])


def search_restores_extra(ctx):
    """"a search never alters the position it was asked about": searches stopped at many different node visits (inside null-move
    subtrees, inside quiescence, at the root) must end with every made move taken back (trace acceptor) and with the position they
    were given (the harness compares the position before and after)."""
    import random
    rng = random.Random(ctx.seed * 77 + 5)
    fens = search_positions(ctx, 6 if ctx.tier == 'quick' else 60, rng)
    fens += ['r3k2r/pppq1ppp/2npbn2/2b1p3/2B1P3/2NPBN2/PPPQ1PPP/R3K2R w KQkq - 0 1', 'r1bq1rk1/pp2bppp/2n1pn2/3p4/2PP4/2N1PN2/PP2BPPP/R1BQ1RK1 w - - 0 1']
    texts = []
    for fen in fens:
        ks = sorted({rng.randrange(2, 4000) for _ in range(10 if ctx.tier == 'quick' else 40)} | {3, 17, 40, 90, 150, 333})
        texts.append(f'pos {fen}\n' + ''.join(f'go depth 7 stopvisit {k}\n' for k in ks) + 'go depth 7 stopvisit 60 searchmoves ' +
                     'e1g1\n' * (1 if fen.startswith('r3k2r/pppq') else 0))
    runs = go_run(ctx, [t if t.endswith('e1g1\n') else t.rsplit('go depth 7 stopvisit 60 searchmoves', 1)[0] for t in texts])
    ctx.count('stopped_searches', len(runs))

    def fail(r):
        e = r['end']
        if e.get('restored') not in (None, '1'):
            return 'the search did not restore the position it was given'
        a = r['accline']
        if a and not a.startswith('ACC ok') and any(w in a for w in ('still made', 'not unwound', 'restored', 'bad state', 'nothing to undo', 'not the move')):
            return 'the stopped search left a move made (trace: ' + a[:120] + ')'
        return None
    judge(ctx, runs, 'search restores its position', fail, acc_required=False)
    ctx.cov['rule'] += f'; plus {len(runs)} searches stopped at scattered node visits: every made move (incl. null moves) is taken back and the position is the one given'


def real_tables_extra(ctx):
    """C04 with the engine's OWN random tables (no ztab override): table sanity, incremental key == key of a fresh
    Position(fen()), and key is a function of / injective on (placement, side, rights, ep) across the whole run."""
    V.three_way(ctx, ['zcheck\n'], lambda l, s: l if l.startswith('zcheck') else None, 'Zobrist table initialisation')
    text = V.lean_gen(ctx.drv, ['lab', ctx.seed * 1000 + 99, 150])
    text = '\n'.join(l for l in text.splitlines() if not l.startswith('ztab')) + '\n'
    rc, C, err = V.run_cpp(ctx.exe, text)
    by_pos, by_key = {}, {}
    bad = None
    for i, l in enumerate(C):
        if not l.startswith('fen='):
            continue
        d = V.parse_state(l)
        ctx.cov['evaluations'] += 1
        p4 = ' '.join(d['fen'].split()[:4])
        if d['key'] != d['fkey'] or d['pkey'] != d['fpkey']:
            bad = (i, 'incremental key differs from the key of a fresh Position(fen())', l)
            break
        if by_pos.setdefault(p4, d['key']) != d['key']:
            bad = (i, 'same position, different key', l)
            break
        if by_key.setdefault(d['key'], p4) != p4:
            bad = (i, f'different positions share a key: "{by_key[d["key"]]}" vs "{p4}"', l)
            break
    ctx.count('real_table_positions', len(by_pos))
    if bad or rc != 0:
        i, why, l = bad if bad else (len(C), 'crash: ' + err[-300:], '')
        ops = text.splitlines()
        start = max(j for j in range(min(i, len(ops) - 1) + 1) if ops[j].startswith('pos '))
        V.report_violation(ctx, 'position keys with the engine\'s own tables: ' + why,
                           '\n'.join(ops[start:i + 1]) + f'\n# {why}\n# cpp: {l}\n', True, ident=why)


def check_C04(ctx):
    f = ['key', 'pkey', 'fkey', 'fpkey']
    return play_family(ctx, 'position keys', state_fields(f), state_fields(f), SZ,
                       'theorems in Props/C04.lean (for every Zobrist table) + differential with the harness\'s tables overwritten by a seeded '
                       'SplitMix64 stream known to both sides: incremental key, pawn key, and the keys of a fresh Position(fen()) after every op; '
                       'the spec computes the key from scratch from (placement, side, rights, ep); plus a pass with the engine\'s own '
                       'tables: cells non-zero and pairwise distinct, key == fresh key, key functional and injective on the visited positions',
                       extra=uci_glue_extra('C04', real_tables_extra), assumptions=['64-bit collisions are outside the property'])


def real_tables_rep_extra(ctx):
    """C07 with the engine's OWN random tables (no ztab override): the repetition answers rest on the keys being different for
    different positions, so the tables must have non-zero, pairwise distinct cells, and on spec-generated games (double pushes on
    every file followed by shuffles among them) the repetition / threefold / draw answers of the C++ must be the rules' answers."""
    V.three_way(ctx, ['zcheck\n'], lambda l, s: l if l.startswith('zcheck') else None, 'Zobrist table initialisation (repetition detection rests on it)')
    # simpler and explicit: white pawn on its start square, a black pawn beside the target square so that the ep square matters
    games = []
    files = 'abcdefgh'
    for i, f in enumerate(files):
        g = files[i - 1] if i > 0 else files[i + 1]
        row4 = ['1'] * 8; row4[files.index(g)] = 'p'
        row2 = ['1'] * 8; row2[i] = 'P'

        def pack(r):
            out, run = '', 0
            for c in r:
                if c == '1':
                    run += 1
                else:
                    out += (str(run) if run else '') + c; run = 0
            return out + (str(run) if run else '')
        fen = f'4k3/8/8/8/{pack(row4)}/8/{pack(row2)}/4K3 w - - 0 1'
        games.append(f'pos {fen}\ndo {f}2{f}4\nstate\ndo e8d8\ndo e1d1\ndo d8e8\ndo d1e1\nstate\ndo e8d8\ndo e1d1\ndo d8e8\ndo d1e1\nstate\n')
        games.append(f'pos {mirror_fen(fen)}\ndo {f}7{f}5\nstate\ndo e1d1\ndo e8d8\ndo d1e1\ndo d8e8\nstate\ndo e1d1\ndo e8d8\ndo d1e1\ndo d8e8\nstate\n')
    text = V.lean_gen(ctx.drv, ['lab', ctx.seed * 1000 + 77, 60 if ctx.tier == 'quick' else 600])
    text = '\n'.join(l for l in text.splitlines() if not l.startswith('ztab')) + '\n'
    full = ''.join(games) + text
    rc, C, err = V.run_cpp(ctx.exe, full)
    rl, M, S, lerr = V.run_lean(ctx.drv, full)
    ops = full.splitlines()
    nbad = 0
    for i, (c, sp) in enumerate(zip(C, S)):
        if not c.startswith('fen=') or not sp.startswith('fen='):
            continue
        dc, ds = V.parse_state(c), V.parse_state(sp)
        ctx.cov['evaluations'] += 1
        ctx.count('real_table_repetition_states')
        for k in ('rep', 'three', 'draw'):
            if dc.get(k) != ds.get(k) and nbad < 2:
                nbad += 1
                start = max(j for j in range(min(i, len(ops) - 1) + 1) if ops[j].startswith('pos '))
                V.report_violation(ctx, f'with the engine\'s own Zobrist tables `{k}` is {dc.get(k)} where the rules give {ds.get(k)}',
                                   '\n'.join(ops[start:i + 1]) + f'\n# cpp: {c}\n# spec: {sp}\n', True, ident=f'realrep {k} {dc.get("fen")}')
                break


def check_C07(ctx):
    f = ['chk', 'mate', 'stale', 'rep', 'three', 'r50', 'mat', 'draw']
    return play_family(ctx, 'check/mate/stalemate/draw predicates', state_fields(f), state_fields(f), SZ,
                       'theorems in Props/C07.lean + three-way differential on the eight predicates after every op; the spec counts earlier '
                       'positions of the game equal in (placement, side, rights, ep); plus a pass with the engine\'s OWN Zobrist tables (cells non-zero and '
                       'pairwise distinct; double pushes on every file followed by king shuffles — positions that differ only in the ep square — and lab games: '
                       'repetition / threefold / draw answers against the rules)',
                       extra=real_tables_rep_extra, assumptions=['no 64-bit key collision inside one game', 'clock < 65535', 'game length < MAX_PLIES'])


def check_C15(ctx):
    return play_family(ctx, 'move classification', moves_fields(['uci', 'cqk'], ('moves',)), moves_fields(['uci', 'cqk'], ('moves',)), SZ_MOVES,
                       'FULL: theorems in Props/C15.lean (capture, quiet and gives-check = the rules\' answers for every legal move of every Spec.wf position) + three-way differential on '
                       'capture/quiet/check flags of every legal move; the spec decides by playing the move under the rules', assumptions=['Spec.wf positions'])


def check_C16(ctx):
    return play_family(ctx, 'uci/encoding/FEN round trip',
                       V.proj_any(moves_fields(['uci', 'code', 'pu'], ('moves',)), state_fields(['fen', 'ffen', 'fkey', 'fpkey', 'key', 'pkey'])),
                       V.proj_any(moves_fields(['uci', 'code', 'pu'], ('moves',)), state_fields(['fen', 'ffen', 'fkey', 'fpkey', 'key', 'pkey'])), SZ_MOVES,
                       'theorems in Props/C16.lean (encodings exhaustively by decide) + differential on uci text, packed code, parse_uci(uci(m)) = m, '
                       'and FEN -> Position -> FEN/keys round trip on every position visited', extra=uci_glue_extra('C16'), assumptions=['1 <= ply (FEN full-move number >= 1)'])


def check_C17(ctx):
    return play_family(ctx, 'SAN round trip', moves_fields(['uci', 'san', 'ps'], ('moves',)), moves_fields(['uci', 'ps'], ('moves',)), SZ_MOVES,
                       'theorems in Props/C17.lean + differential on the SAN text of every legal move (model vs C++) and parse_san(san(m)) = m '
                       '(spec: must be 1 for every legal move)', assumptions=['std::regex ECMAScript semantics of the one SAN pattern'])


def check_C18(ctx):
    return play_family(ctx, 'Polyglot key', state_fields(['poly']), state_fields(['poly']), SZ,
                       'theorems in Props/C18.lean + differential on PolyglotBook::hash after every op; the spec is the published definition over the '
                       'committed Random64 array', extra=uci_book_extra('C18'), assumptions=['provenance of Random64 (Spec/Random64.lean header)'])


def line_proj(prefixes):
    def p(line, side):
        return line if line.startswith(prefixes) else None
    return p


def check_C11(ctx):
    import random
    ok = V.prepare(ctx, thm('C11'))
    ctx.trusted = TB_COMMON + ['decide +kernel for the 128 per-square table obligations (kernel evaluation, no native_decide)']
    rng = random.Random(ctx.seed)
    texts = []
    # exhaustive: every (square, subset of the mask) pair = 107,648 lookups, all leaper/mask/ray/line table entries
    for kind in (3, 4):
        for sq in range(64):
            texts.append(f'slidertab {kind} {sq}\n')
    texts.append(''.join(f'leapers {sq}\nlines {sq}\n' for sq in range(64)))
    # the tables must still be what they were after the code that READS them has run: evaluate every specialised endgame
    # class, corpus and lab positions (and generate their moves) in one process, then dump every table of that process again
    fens_x, eg_x = eval_positions(ctx, rng, 6, 40, 6 if ctx.tier == 'quick' else 40)
    texts.append('ztab 9\n' + ''.join(f'pos {f}\neval\nmoves\n' for f in eg_x + fens_x[:200]) +
                 ''.join(f'leapers {sq}\nlines {sq}\n' for sq in range(64)) + ''.join(f'slidertab {k} {sq}\n' for k in (3, 4) for sq in range(0, 64, 1 if ctx.tier != 'quick' else 3)))
    nrand = 20000 if ctx.tier == 'quick' else 1000000
    per = nrand // (NPROC * 2)
    for _ in range(NPROC * 2):
        lines = []
        for _ in range(per):
            k = rng.choice((3, 4, 5))
            occ = rng.getrandbits(64) & rng.getrandbits(64) if rng.random() < 0.5 else rng.getrandbits(64)
            lines.append(f'att {k} {rng.randrange(64)} {occ:x}')
            if rng.random() < 0.1:
                lines.append(f'pawnatt {rng.randrange(2)} {rng.getrandbits(64) & 0x00ffffffffffff00:x}')
                lines.append(f'bits {rng.getrandbits(64) >> rng.randrange(64):x}')
        texts.append('\n'.join(lines) + '\n')
    ctx.cov['rule'] = ('EXHAUSTIVE: all 64x2 magic rows over every subset of the blocker mask (107,648 lookups through slider_attack<>), all '
                       'leaper/pawn/mask/RAYS entries, all 64x64 LINES/FULL_LINES entries; plus random full 64-bit occupancies, pawn sets and bithack inputs; '
                       'C++ vs Lean model vs geometric spec; distinct = distinct output lines')
    ctx.cov['exhaustive'] = True
    md, sd = V.three_way(ctx, texts, line_proj(('slidertab', 'att', 'leapers', 'lines', 'pawnatt', 'bits')), 'attack tables')
    ctx.count('random_occupancies', nrand)
    # pin a differing table row down to one (square, occupancy)
    for text, i, c, m, s in (sd + md)[:2]:
        if c.startswith('slidertab') and (s.startswith('slidertab') or m.startswith('slidertab')):
            other = s if c != s else m
            cv, ov = c.split()[4:], other.split()[4:]
            kind, sq = int(c.split()[1]), int(c.split()[2])
            idx = next((j for j in range(min(len(cv), len(ov))) if cv[j] != ov[j]), None)
            if idx is None:
                continue
            rc, L, _ = V.run_cpp(ctx.exe, f'leapers {sq}\n')
            d = dict(kv.split('=') for kv in L[0].split()[2:])
            mask = int(d['bm' if kind == 3 else 'rm'], 16)
            bits = [b for b in range(64) if mask >> b & 1]
            occ = sum(1 << b for j, b in enumerate(bits) if idx >> j & 1)
            for v in ctx.violations:
                if v['what'].startswith('attack tables') :
                    open(v['replay'], 'a').write(f'# minimal: att {kind} {sq} {occ:x}   (table index {idx}: implementation {cv[idx]} vs expected {ov[idx]})\n')
                    break
    hunt_if_needed(ctx, ok, 'attack tables', lambda: None)
    return V.finish(ctx, 'proof', thm('C11'),
                    'C11_slider is proved for every square and all 2^64 occupancies (per-square kernel checks of the first-writer-wins table '
                    'against the ray walk + an inductive lemma that the walk ignores the last square of each ray); leapers and lines by exhaustive '
                    'decide; pawn attacks for arbitrary pawn sets (C11_pawn). '
                    'The correspondence is exhaustive over the finite tables.', checker_cmd('C11'))


def sqname(s):
    return 'abcdefgh'[s % 8] + str(s // 8 + 1)


def check_C12(ctx):
    from concurrent.futures import ThreadPoolExecutor
    ok = V.prepare(ctx, thm('C12'))
    ctx.trusted = TB_COMMON + ['"safe promotion => win" (K+Q / K+R v K is won) is chess theory outside the model']
    ctx.assumptions = ['promotion to a queen/rook that cannot be captured and does not stalemate is taken as a win']
    rows = [(strong, stm, psq, 0) for strong in (0, 1) for stm in (0, 1) for psq in range(8, 56)]
    # the same rows again with other endgame classes (KQK, KRK, KBNK, K+pawns v K, both colours) evaluated in between: the KPK answer
    # must not depend on what the evaluator was asked before (quick: every fourth row)
    rows += [(a, b, c, 1) for k, (a, b, c, _) in enumerate(list(rows)) if ctx.tier != 'quick' or k % 4 == ctx.seed % 4]
    chunks = [rows[i::NPROC] for i in range(NPROC)]
    texts = [''.join(f'kpkrow {a} {b} {c}{" 1" if h else ""}\n' for a, b, c, h in ch) for ch in chunks if ch]

    def work(text):
        rc, C, err = V.run_cpp(ctx.exe, text)
        rl, M, S, lerr = V.run_lean(ctx.drv, text)
        return text, rc, C, err, M, S
    legal = wins = 0
    sbad, mbad = [], []
    with ThreadPoolExecutor(max_workers=NPROC) as ex:
        for text, rc, C, err, M, S in ex.map(work, texts):
            if rc != 0:
                V.report_violation(ctx, 'KPK classification: crash', text + '# ' + err[-500:], True, ident=err[-200:])
                continue
            for c, m, s_ in zip(C, M, S):
                hdr = c.split()[:4]
                strong, stm, psq = int(hdr[1]), int(hdr[2]), int(hdr[3])
                cc, mm, ss = c.split()[4], m.split()[4], s_.split()[4]
                for i in range(4096):
                    if ss[i] in 'x-':
                        continue
                    legal += 1
                    wins += ss[i] == 'W'
                    if cc[i] != ss[i]:
                        sbad.append((strong, stm, psq, i // 64, i % 64, cc[i], ss[i]))
                    elif cc[i] != mm[i]:
                        mbad.append((strong, stm, psq, i // 64, i % 64, cc[i], mm[i]))
    ctx.cov['evaluations'] = legal
    ctx.distinct.update(range(legal))
    ctx.cov['exhaustive'] = True
    ctx.cov['rule'] = ('EXHAUSTIVE: every legal KPK position, both pawn colours, both sides to move, all 8 files, classified through the real evaluation path (endgame::score on a Position '
                       'built from a FEN) vs the model (normalize + index + bit of the re-extracted table) vs the rules-level retrograde solver, and again with evaluations of other endgame classes in between (history independence); distinct = legal positions')
    ctx.count('legal_positions', legal)
    ctx.count('won_positions', wins)
    ctx.count('spec_mismatches', len(sbad))
    ctx.count('model_mismatches', len(mbad))

    def fen_of(strong, stm, psq, sk, wk):
        b = [''] * 64
        b[sk] = 'K' if strong == 0 else 'k'
        b[wk] = 'k' if strong == 0 else 'K'
        b[psq] = 'P' if strong == 0 else 'p'
        rowsf = []
        for r in range(7, -1, -1):
            row, run = '', 0
            for f in range(8):
                ch = b[r * 8 + f]
                if not ch:
                    run += 1
                else:
                    row += (str(run) if run else '') + ch
                    run = 0
            rowsf.append(row + (str(run) if run else ''))
        return '/'.join(rowsf) + (' w' if stm == 0 else ' b') + ' - - 0 1'
    if sbad:
        ex = sbad[0]
        V.report_violation(ctx, f'KPK classification differs from the game-theoretic value on {len(sbad)} legal positions',
                           f'kpkrow {ex[0]} {ex[1]} {ex[2]}\n# first: {fen_of(*ex[:5])}  engine says {ex[5]}, truth {ex[6]}\n# more: ' +
                           '; '.join(fen_of(*e[:5]) for e in sbad[1:6]) + '\n', True, ident=str(sbad[:3]))
    elif mbad:
        ex = mbad[0]
        V.report_violation(ctx, f'KPK: model (normalize/index/bit) and implementation disagree on {len(mbad)} positions where the implementation is right; no-failing-input-found',
                           f'kpkrow {ex[0]} {ex[1]} {ex[2]}\n# first: {fen_of(*ex[:5])}  engine {ex[5]}, model {ex[6]}\n# broken tie: Model/Bitbase.lean\n', False, ident=str(mbad[:3]))
    ctx.cov['samples'] = [{'fen': fen_of(0, 0, 8, 16, 40), 'note': 'one of the enumerated positions'}]
    hunt_if_needed(ctx, ok, 'KPK classification', lambda: None)
    return V.finish(ctx, 'proof', thm('C12'),
                    'C12_kpk (Props/C12.lean): for every legal KPK position the answer computed from the table the CURRENT build produced equals the least-fixpoint "pawn\'s side forces a win" of the rules '
                    '(Spec/KPK.lean) — proved by a certificate (the table + committed rank data) whose local conditions the Lean kernel evaluates at all 393,216 (stm, wk, wp, bk) tuples (96 chunks, decide +kernel), '
                    'lifted by induction on ranks (soundness) and on derivations (completeness); C12_mirror covers black pawns. The correspondence (model lookup = real evaluation path = independent retrograde solver) is '
                    'exhaustive over all legal KPK positions',
                    checker_cmd('C12'))


def mirror_fen(fen):
    f = fen.split()
    rows = f[0].split('/')[::-1]
    f[0] = '/'.join(r.swapcase() for r in rows)
    f[1] = 'b' if f[1] == 'w' else 'w'
    if f[2] != '-':
        sw = f[2].swapcase()
        f[2] = ''.join(c for c in 'KQkq' if c in sw)
    if f[3] != '-':
        f[3] = f[3][0] + str(9 - int(f[3][1]))
    return ' '.join(f)


ENDGAME_CLASSES = ['KPk', 'KPPk', 'KPPPk', 'KNBk', 'KQkr', 'KRNkr', 'KRBkr', 'KBPk', 'KBPPk', 'KQkp', 'KRkp', 'KNNk', 'KNNkp', 'KBPkb', 'KBPPkb', 'KBPPPkb',
                   'KRkb', 'KRkn', 'KQkrp', 'KQkrpp', 'KBBkn', 'KBNkb', 'KNNkb', 'KQk', 'KRk', 'KQQk', 'KQRPk', 'KQQQQQQQQRRk', 'KQQQQQQQQQk', 'KRRRRRRRRRRk', 'KBNk']


def random_placements(rng, classes, per):
    out = []
    for cls in classes:
        for _ in range(per):
            pcs = list(cls)
            if rng.random() < 0.5:
                pcs = [c.swapcase() for c in pcs]
            board = [''] * 64
            okp = True
            for c in pcs:
                for _try in range(50):
                    sq = rng.randrange(64)
                    if board[sq]:
                        continue
                    if c in 'Pp' and (sq < 8 or sq >= 56):
                        continue
                    board[sq] = c
                    break
                else:
                    okp = False
            if not okp:
                continue
            rows = []
            for r in range(7, -1, -1):
                row, run = '', 0
                for fl in range(8):
                    ch = board[r * 8 + fl]
                    if not ch:
                        run += 1
                    else:
                        row += (str(run) if run else '') + ch
                        run = 0
                rows.append(row + (str(run) if run else ''))
            out.append('/'.join(rows) + (' w' if rng.random() < 0.5 else ' b') + ' - - 0 1')
    return out


def wf_filter(ctx, fens):
    text = ''.join(f'pos {f}\nwf\n' for f in fens)
    per = max(1, len(fens) // NPROC)
    chunks = [fens[i:i + per] for i in range(0, len(fens), per)]
    from concurrent.futures import ThreadPoolExecutor

    def work(ch):
        rl, M, S, _ = V.run_lean(ctx.drv, ''.join(f'pos {f}\nwf\n' for f in ch))
        return [f for i, f in enumerate(ch) if 2 * i + 1 < len(S) and S[2 * i + 1] == 'wf 1']
    out = []
    with ThreadPoolExecutor(max_workers=NPROC) as ex:
        for r in ex.map(work, chunks):
            out += r
    return out


def structured_endgames(rng, n):
    """positions built to reach the special-case branches of the endgame evaluators, which uniform random placements almost never hit:
    bishop + two pawns on adjacent files v bishop with the defending king and bishop on / aimed at the blockade squares (KBPsKB),
    rook-pawn + wrong bishop with the defending king near the corner (KBPsK / KPsK), queen v pawn on the seventh (KQKP), rook v pawn
    races (KRKP).  White is the stronger side; callers add the colour mirror."""
    def fen_of(pl):
        rows = []
        for r in range(7, -1, -1):
            row, run = '', 0
            for f in range(8):
                ch = pl.get(r * 8 + f)
                if ch:
                    row += (str(run) if run else '') + ch; run = 0
                else:
                    run += 1
            rows.append(row + (str(run) if run else ''))
        return '/'.join(rows)
    out = []
    tries = 0
    while len(out) < n and tries < n * 40:
        tries += 1
        kind = rng.choice(['kbpkb', 'kbpkb', 'kbpkb', 'wrongbishop', 'kqkp', 'krkp'])
        pl = {}
        if kind == 'kbpkb':
            f1 = rng.randrange(8); f2 = f1 + rng.choice([-1, 1])
            if not 0 <= f2 < 8:
                continue
            r1 = rng.randrange(2, 6); r2 = rng.randrange(1, r1)
            # a third of the time the two leading pawns stand abreast (which of them counts as "the most advanced" is then a
            # tie-break that must not depend on the colour)
            abreast = rng.random() < 0.34
            if abreast:
                r2 = r1
            p1, p2 = r1 * 8 + f1, r2 * 8 + f2
            pl[p1] = 'P'; pl[p2] = 'P'
            if abreast and rng.random() < 0.4 and r1 >= 3:
                pl[(r1 - rng.randrange(1, r1 - 1)) * 8 + rng.choice([f1, f2])] = 'P'
            block1, block2 = (r1 + 1) * 8 + f1, r1 * 8 + f2          # abreast: block2 is the neighbouring pawn's own square
            same = [s for s in range(64) if (s // 8 + s % 8) % 2 == (r1 + f1) % 2 and s not in pl and s not in (block1, block2)]
            other = [s for s in range(64) if (s // 8 + s % 8) % 2 != (r1 + f1) % 2 and s not in pl]
            sb = rng.choice(same if rng.random() < 0.8 else other)
            pl[sb] = 'B'
            kb, tb = (block1, block2) if (abreast or rng.random() < 0.5) else (block2, block1)
            if rng.random() < 0.8:
                pl[kb] = 'k'
                diag = [s for s in range(64) if s not in pl and s != tb and abs(s // 8 - tb // 8) == abs(s % 8 - tb % 8)]
                if not diag:
                    continue
                pl[rng.choice(diag) if rng.random() < 0.8 else tb] = 'b'
            else:
                free = [s for s in range(64) if s not in pl]
                pl[rng.choice(free)] = 'k'
                free = [s for s in range(64) if s not in pl]
                pl[rng.choice(free)] = 'b'
        elif kind == 'wrongbishop':
            f = rng.choice([0, 7])
            for _ in range(rng.randrange(1, 3)):
                pl[rng.randrange(1, 7) * 8 + f] = 'P'
            if rng.random() < 0.7:
                free = [s for s in range(64) if s not in pl]
                pl[rng.choice(free)] = 'B'
            corner = 56 + f
            near = [s for s in (corner, corner - 8, corner + (1 if f == 0 else -1), corner - 8 + (1 if f == 0 else -1), rng.randrange(64)) if 0 <= s < 64 and s not in pl]
            if not near:
                continue
            pl[rng.choice(near)] = 'k'
        elif kind == 'kqkp':
            f = rng.randrange(8)
            pl[8 + f if rng.random() < 0.8 else 16 + f] = 'p'
            free = [s for s in range(64) if s not in pl]
            pl[rng.choice(free)] = 'Q'
            near = [s for s in range(24) if s not in pl and abs(s % 8 - f) <= 1]
            pl[rng.choice(near) if near and rng.random() < 0.8 else rng.choice([s for s in range(64) if s not in pl])] = 'k'
        else:
            f = rng.randrange(8)
            pl[rng.randrange(1, 5) * 8 + f] = 'p'
            for ch in 'Rk':
                free = [s for s in range(64) if s not in pl]
                pl[rng.choice(free)] = ch
        free = [s for s in range(64) if s not in pl]
        pl[rng.choice(free)] = 'K'
        if sum(1 for v in pl.values() if v == 'k') != 1:
            continue
        out.append(fen_of(pl) + ' ' + rng.choice('wb') + ' - - 0 1')
    return out + [mirror_fen(f) for f in out]


def eval_positions(ctx, rng, nplay, nlab, per_class):
    fens = set(corpus_fens())
    text = V.lean_gen(ctx.drv, ['lab', ctx.seed * 1000 + 555, nlab])
    fens.update(l[4:] for l in text.splitlines() if l.startswith('pos '))
    # positions along spec-generated games: take the C++ FENs of a play run
    chunks = play_chunks(ctx, nplay, 80, 1000, seed_off=55)
    for ch in chunks:
        rc, C, err = V.run_cpp(ctx.exe, ch)
        for l in C[::3]:
            if l.startswith('fen='):
                fens.add(V.parse_state(l)['fen'])
    eg = wf_filter(ctx, random_placements(rng, ENDGAME_CLASSES, per_class) + (structured_endgames(rng, 6 * per_class) if per_class else []))
    return sorted(fens), eg


VALUE_MATE_C = 640000
MAX_DEPTH_C = 40


def relocate_variants(rng, fen, n):
    """positions with the same pawn structure: one non-pawn piece (often a king) moved to a random empty square, rights and ep dropped"""
    f = fen.split()
    rows = f[0].split('/')
    board = []
    for r in rows:
        row = []
        for c in r:
            if c.isdigit():
                row += [''] * int(c)
            else:
                row.append(c)
        board.append(row)
    pieces = [(r, c) for r in range(8) for c in range(8) if board[r][c] and board[r][c] not in 'Pp']
    kings = [(r, c) for (r, c) in pieces if board[r][c] in 'Kk']
    empties = [(r, c) for r in range(8) for c in range(8) if not board[r][c]]
    out = []
    for _ in range(n):
        if not pieces or not empties:
            break
        src = rng.choice(kings) if (kings and rng.random() < 0.6) else rng.choice(pieces)
        dst = rng.choice(empties)
        b2 = [row[:] for row in board]
        b2[dst[0]][dst[1]] = b2[src[0]][src[1]]
        b2[src[0]][src[1]] = ''
        txt = []
        for row in b2:
            t, run = '', 0
            for c in row:
                if c:
                    t += (str(run) if run else '') + c
                    run = 0
                else:
                    run += 1
            txt.append(t + (str(run) if run else ''))
        out.append(' '.join(['/'.join(txt), f[1], '-', '-'] + f[4:]))
    return out


def check_C13(ctx):
    import random
    ok = V.prepare(ctx, thm('C13'))
    ctx.trusted = TB_COMMON + ['evaluation constants are written out in Model/Eval.lean; a changed constant shows up as a model/implementation disagreement']
    ctx.assumptions = ['Spec.wf positions with sufficient mating material']
    rng = random.Random(ctx.seed * 31 + 8)
    q = (24, 250, 40) if ctx.tier == 'quick' else (600, 6000, 1500)
    fens, eg = eval_positions(ctx, rng, *q)
    allf = fens + eg
    per = max(1, len(allf) // (NPROC * 2))
    texts = ['ztab 9\n' + ''.join(f'pos {f}\neval\npos {mirror_fen(f)}\neval\n' for f in allf[i:i + per]) for i in range(0, len(allf), per)]
    ctx.cov['rule'] = (f'{len(fens)} positions from the corpus, the lab and spec-generated games plus {len(eg)} random placements of every specialised endgame material class plus constructed positions for their special-case branches (KBPsKB blockades, wrong-bishop rook pawns, KQKP, KRKP; both colours, '
                       'Spec.wf-filtered), each evaluated together with its mirror image (ranks flipped, colours/rights/ep/side swapped) by a fresh evaluator, and warm sessions through ONE evaluator (a position, a same-pawn-structure variant with a king or piece relocated, then the variant\'s mirror); model vs C++ on every value, '
                       'and the property eval(p) == eval(mirror p) on the C++ outputs whenever enough_material holds')
    md, sd = V.three_way(ctx, texts, lambda l, s: l if l.startswith('eval ') else None, 'static evaluation', spec_proj=lambda l, s: None)
    # the same property through ONE long-lived evaluator (what the search uses): a position, then positions with the same pawn
    # structure but a king / piece elsewhere, then the mirror image of the last one — anything the evaluator keeps between calls
    # (pawn cache, per-evaluation scratch) shows up as eval(p) != eval(mirror p) here although fresh evaluators agree
    warm_src = [f for f in fens if any(c in f.split()[0] for c in 'Pp')]
    rng.shuffle(warm_src)
    nw = 60 if ctx.tier == 'quick' else 1500
    cand = [(f, g) for f in warm_src[:nw] for g in relocate_variants(rng, f, 3)]
    okv = set(wf_filter(ctx, [g for _, g in cand]))
    warm = [(f, g) for f, g in cand if g in okv]
    ctx.count('warm_mirror_sessions', len(warm))
    wper = max(1, len(warm) // (NPROC * 2))
    wtexts = ['ztab 9\n' + ''.join(f'evalclear\npos {f}\nevalw\npos {g}\nevalw\npos {mirror_fen(g)}\nevalw\n' for f, g in warm[i:i + wper])
              for i in range(0, len(warm), wper)]
    if wtexts:
        V.three_way(ctx, wtexts, lambda l, s: l if l.startswith('evalw ') else None, 'static evaluation through one evaluator',
                    spec_proj=lambda l, s: l if l.startswith('evalw ') else None)
    # the property itself, on the implementation
    from concurrent.futures import ThreadPoolExecutor
    bad = []

    def work(t):
        return t, V.run_cpp(ctx.exe, t)[1]
    with ThreadPoolExecutor(max_workers=NPROC) as ex:
        for t, C in ex.map(work, texts):
            ops = t.splitlines()
            i = 1
            while i + 3 < len(ops) + 0 and i + 3 < len(C) + 0:
                st, ev, stm, evm = C[i], C[i + 1], C[i + 2], C[i + 3]
                if st.startswith('fen=') and ev.startswith('eval') and evm.startswith('eval'):
                    d = V.parse_state(st)
                    if d.get('mat') == '1' and ev != evm:
                        bad.append((d['fen'], ev, evm))
                    ctx.count('mirror_pairs')
                i += 4
    wbad = []

    def wwork(t):
        return t, V.run_cpp(ctx.exe, t)[1]
    with ThreadPoolExecutor(max_workers=NPROC) as ex:
        for t, C in ex.map(wwork, wtexts):
            # per session: evalclear, pos f, evalw, pos g, evalw, pos mirror g, evalw  (7 ops after the ztab line)
            i = 1
            while i + 6 < len(C):
                stg, evg, stm2, evm2 = C[i + 3], C[i + 4], C[i + 5], C[i + 6]
                if stg.startswith('fen=') and evg.startswith('evalw') and evm2.startswith('evalw'):
                    d = V.parse_state(stg)
                    if d.get('mat') == '1' and evg != evm2:
                        wbad.append((t.splitlines()[i + 1][4:], d['fen'], evg, evm2))
                    ctx.count('warm_mirror_pairs')
                i += 7
    if wbad:
        f0, g, a, b = wbad[0]
        V.report_violation(ctx, f'through one long-lived evaluator the evaluation is not colour-symmetric on {len(wbad)} positions (state kept between evaluations)',
                           f'evalclear\npos {f0}\nevalw\npos {g}\nevalw\npos {mirror_fen(g)}\nevalw\n# {a} vs mirrored {b}\n', True, ident=g + a + b)
    if bad:
        f, a, b = bad[0]
        V.report_violation(ctx, f'evaluation is not colour-symmetric on {len(bad)} positions',
                           f'pos {f}\neval\npos {mirror_fen(f)}\neval\n# {a} vs mirrored {b}\n', True, ident=f + a + b)
    # the correspondence (or a proof) broke without a concrete asymmetry among the sampled positions: look for one on the
    # implementation alone, over many more placements of every specialised endgame class and more game positions
    if (md or not ok) and not any(v['concrete'] for v in ctx.violations):
        nh = 250 if ctx.tier == 'quick' else 2000
        more = wf_filter(ctx, random_placements(rng, ENDGAME_CLASSES, nh))
        extra_f, _ = eval_positions(ctx, rng, 8, 300, 0)
        pool = more + extra_f
        hper = max(1, len(pool) // (NPROC * 2))
        htexts = ['ztab 9\n' + ''.join(f'pos {f}\neval\npos {mirror_fen(f)}\neval\n' for f in pool[i:i + hper]) for i in range(0, len(pool), hper)]
        ctx.count('hunt_mirror_pairs', len(pool))
        hbad = []
        with ThreadPoolExecutor(max_workers=NPROC) as ex:
            for t, C in ex.map(work, htexts):
                i = 1
                while i + 3 < len(C):
                    st, ev, stm, evm = C[i], C[i + 1], C[i + 2], C[i + 3]
                    if st.startswith('fen=') and ev.startswith('eval') and evm.startswith('eval'):
                        d = V.parse_state(st)
                        if d.get('mat') == '1' and ev != evm:
                            hbad.append((d['fen'], ev, evm))
                    i += 4
        if hbad:
            f, a, b = hbad[0]
            V.report_violation(ctx, f'evaluation is not colour-symmetric (found by the search that follows a broken correspondence; {len(hbad)} of {len(pool)} positions)',
                               f'pos {f}\neval\npos {mirror_fen(f)}\neval\n# {a} vs mirrored {b}\n', True, ident=f + a + b)
    hunt_if_needed(ctx, ok, 'static evaluation symmetry', lambda: None)
    return V.finish(ctx, 'proof', thm('C13'),
                    'theorems in Props/C13.lean (mirror laws; see DESIGN §6 C13 for the part proved) + model/C++ agreement on every evaluation and the symmetry property checked directly on the '
                    'C++ for every sampled position and its mirror, including every specialised endgame class', checker_cmd('C13'))


def check_C14(ctx):
    import random
    ok = V.prepare(ctx, thm('C14'))
    ctx.trusted = TB_COMMON
    ctx.assumptions = ['no two distinct pawn structures of one session share a 64-bit pawn key']
    rng = random.Random(ctx.seed * 37 + 1)
    q = (16, 150, 30) if ctx.tier == 'quick' else (400, 4000, 600)
    fens, eg = eval_positions(ctx, rng, *q)
    heavy = wf_filter(ctx, random_placements(rng, ['KQQQQQQQQRRk', 'KQQQQQQQQQk', 'KRRRRRRRRRRk', 'KQQQQQQQQRRBNk', 'KQQQQQQQRRBBNNk', 'KQRRBBNNPPPPPPPPk'], 25))
    pawnless = [f for f in fens + eg if 'p' not in f.split()[0].lower()]
    # structures whose pawn key falls into chosen cache slots (slot 0 = the slot of every pawnless position)
    rc, L, err = V.run_cpp(ctx.exe, 'ztab 9\n' + ''.join(f'findslot {t} {ctx.seed * 97 + i}\n' for i, t in enumerate([0, 0, 1, 1, 77777, 77777])), timeout=600)
    slotted = [' '.join(l.split()[2:]) for l in L if l.startswith('findslot ') and 'none' not in l]
    # pairs of different pawn structures whose keys agree in the low 32 bits (same slot; a key comparison narrower than 64 bits confuses them)
    rc, L2, err = V.run_cpp(ctx.exe, 'ztab 9\n' + ''.join(f'findpair32 {ctx.seed * 131 + i}\n' for i in range(3)), timeout=900)
    pairs32 = [tuple(x.strip() for x in l.split('|')[1:3]) for l in L2 if l.startswith('findpair32 ') and 'none' not in l]
    # "sibling" positions: the same placement with one side's sliders turned into knights / removed, evaluated right
    # after the original on the same evaluator (state that is recomputed only under some condition goes stale here)
    def siblings(f):
        parts = f.split()
        out = []
        for tr in (str.maketrans('brq', 'nnn'), str.maketrans('BRQ', 'NNN'), str.maketrans('brqBRQ', 'nnnNNN')):
            g = parts[0].translate(tr)
            if g != parts[0]:
                out.append(' '.join([g] + parts[1:2] + ['-', '-'] + parts[4:]))
        return out
    sib_src = [f for f in fens if any(c in f.split()[0] for c in 'brqBRQ')]
    rng.shuffle(sib_src)
    cand = [(f, g) for f in sib_src[:120 if ctx.tier == 'quick' else 3000] for g in siblings(f)]
    okset = set(wf_filter(ctx, [g for _, g in cand]))
    sib_pairs = [(f, g) for f, g in cand if g in okset]
    texts = []
    pool = fens + eg + heavy
    nsess = NPROC * 2
    for sidx in range(nsess):
        ops = ['ztab 9']
        seq = [rng.choice(pool) for _ in range(len(pool) // nsess + 10)]
        for k, f in enumerate(seq):
            ops += [f'pos {f}', 'evalw', 'eval']
            r = rng.random()
            if r < 0.08:
                ops.append('evalclear')
                if pawnless:
                    ops += [f'pos {rng.choice(pawnless)}', 'evalw', 'eval']
            elif r < 0.16 and slotted:
                a = rng.choice(slotted)
                ops += [f'pos {a}', 'evalw', 'eval', 'evalclear' if rng.random() < 0.5 else 'state']
                if pawnless:
                    ops += [f'pos {rng.choice(pawnless)}', 'evalw', 'eval']
                ops += [f'pos {rng.choice(slotted)}', 'evalw', 'eval']
        for a, g in sib_pairs[sidx::nsess]:
            ops += [f'pos {a}', 'evalw', 'eval', f'pos {g}', 'evalw', 'eval']
        for a, g in pairs32:
            ops += [f'pos {a}', 'evalw', 'eval', f'pos {g}', 'evalw', 'eval', f'pos {a}', 'evalw', 'eval']
        texts.append('\n'.join(ops) + '\n')
    ctx.count('sibling_pairs', len(sib_pairs))
    ctx.cov['rule'] = (f'{nsess} sessions of random interleavings over {len(pool)} positions (corpus, lab, games, every endgame class, extreme material): each position is evaluated by the session\'s '
                       'long-lived evaluator (evalw) and by a fresh one (eval); sibling positions (sliders of one side turned into knights) right after the original; cache clears, pawnless positions right after a clear, and pawn structures searched to fall into chosen cache slots '
                       f'(slot 0 and collisions: {len(slotted)} found; {len(pairs32)} pairs agreeing in the low 32 key bits by birthday search); warm == fresh and |v| < VALUE_MATE - MAX_DEPTH, v != VALUE_NONE on the C++ outputs; model vs C++ on every value')
    md, sd = V.three_way(ctx, texts, lambda l, s: l if l.startswith(('eval ', 'evalw ')) else None, 'evaluation purity',
                         spec_proj=lambda l, s: l if l.startswith('evalw ') else None)
    from concurrent.futures import ThreadPoolExecutor

    def work(t):
        return t, V.run_cpp(ctx.exe, t)[1]
    bad = None
    with ThreadPoolExecutor(max_workers=NPROC) as ex:
        for t, C in ex.map(work, texts):
            ops = t.splitlines()
            lastfen = None
            for i, l in enumerate(C):
                if l.startswith('fen='):
                    lastfen = V.parse_state(l)['fen']
                if l.startswith('evalw ') and i + 1 < len(C) and C[i + 1].startswith('eval '):
                    w, f = int(l.split()[1]), int(C[i + 1].split()[1])
                    ctx.count('warm_fresh_pairs')
                    if w != f and not bad:
                        bad = ('warm evaluator %d != fresh evaluator %d' % (w, f), '\n'.join(ops[:i + 2]))
                    if (abs(f) >= VALUE_MATE_C - MAX_DEPTH_C or f == 640002) and not bad:
                        bad = (f'evaluation {f} is not strictly inside the non-mate range', f'pos {lastfen}\neval')
    if bad:
        V.report_violation(ctx, 'evaluation purity/bound: ' + bad[0], bad[1] + '\n# ' + bad[0] + '\n', True, ident=bad[0] + bad[1][-200:])
    ctx.count('slotted_structures', len(slotted))
    hunt_if_needed(ctx, ok, 'evaluation purity', lambda: None)
    return V.finish(ctx, 'proof', thm('C14'),
                    'C14_cache_transparent is proved for every sequence of evaluate/clear operations over the modelled HashMap (generic in the pawn scoring function) under pawn-key injectivity; '
                    'the bound is explored (see DESIGN §6 C14); correspondence: warm vs fresh evaluators on the C++ itself, model vs C++ on every value, chosen cache-slot collisions', checker_cmd('C14'))


def rand_book(rng, nrec, keys, tail):
    recs = bytearray()
    for _ in range(nrec):
        key = rng.choice(keys)
        fr, to = rng.randrange(64), rng.randrange(64)
        if rng.random() < 0.25:
            fr, to = rng.choice([(4, 7), (4, 0), (60, 63), (60, 56), (4, 6), (60, 58), (12, 28)])
        promo = rng.choice([0, 0, 0, 0, 1, 2, 3, 4])
        code = (promo << 12) | (fr << 6) | to
        w = rng.choice([0, 0, 1, 1, 2, 5, 100, 65535, rng.randrange(65536)])
        recs += key.to_bytes(8, 'big') + code.to_bytes(2, 'big') + w.to_bytes(2, 'big') + bytes(rng.randrange(256) for _ in range(4))
    recs += bytes(rng.randrange(256) for _ in range(tail))
    return recs.hex() or '-'


def check_C19(ctx):
    import random
    ok = V.prepare(ctx, thm('C19'))
    ctx.trusted = TB_COMMON + ['iostream read/gcount/failbit contract of `while (stream.read(entry, 16))`', 'std::mt19937 + uniform_int_distribution replayed by the harness to learn the residue']
    ctx.assumptions = ['the residue r = dist(gen) % total is uniform up to modulo bias <= total/2^32 (PRNG quality is outside the model)']
    rng = random.Random(ctx.seed * 7 + 1)
    nbooks = 400 if ctx.tier == 'quick' else 20000
    keys = [0x463b96181691fc9c, 0x823c9b50fd114196, 1, 0, 0xffffffffffffffff, 0x8000000000000000]
    fens = ['rnbqkbnr/pppppppp/8/8/8/8/PPPPPPPP/RNBQKBNR w KQkq - 0 1', 'r3k2r/8/8/8/8/8/8/R3K2R w KQkq - 0 1',
            'r3k2r/8/8/8/8/8/8/R3K2R b KQkq - 0 1', '4k3/8/8/8/8/8/8/R3KQ1R w - - 0 1', '4q3/8/8/8/8/8/8/4K3 w - - 0 1']
    books = []
    # all truncation points of a small file, empty file, then random books
    base = rand_book(rng, 3, keys[:2], 0)
    for cut in range(0, len(base) // 2 + 1):
        books.append(base[:2 * cut] or '-')
    for _ in range(nbooks):
        books.append(rand_book(rng, rng.choice([0, 1, 2, 3, 5, 8, 20, 40]), keys[:rng.choice([1, 2, 6])], rng.choice([0, 0, 1, 7, 15])))
    # phase 1: ask the harness which residue each (seed, total) draws
    plan = []
    for b in books:
        raw = bytes.fromhex(b) if b != '-' else b''
        ents = [(int.from_bytes(raw[i:i + 8], 'big'), int.from_bytes(raw[i + 10:i + 12], 'big')) for i in range(0, len(raw) - 15, 16)]
        for key in sorted(set(k for k, _ in ents))[:2]:
            total = sum(w for k, w in ents if k == key)
            for _ in range(3):
                plan.append((b, key, rng.randrange(1 << 30), total))
    rc, L, err = V.run_cpp(ctx.exe, ''.join(f'residue {seed} {total}\n' for _, _, seed, total in plan))
    res = [int(l.split()[1]) for l in L if l.startswith('residue')]
    texts, cur = [], []
    fen_i = 0
    per_book = {}
    for (b, key, seed, total), r in zip(plan, res):
        per_book.setdefault(b, []).append(f'bookpick {b} {key:x} {seed} {r}')
        per_book[b].append(f'bookbest {b} {key:x}')
    for b in books:
        cur.append(f'pos {fens[fen_i % len(fens)]}')
        fen_i += 1
        cur.append(f'book {b}')
        cur += per_book.get(b, [])[:8]
        if len(cur) > 300:
            texts.append('\n'.join(cur) + '\n')
            cur = []
    if cur:
        texts.append('\n'.join(cur) + '\n')
    ctx.cov['rule'] = (f'{len(books)} byte strings as book files: every truncation point of a 3-record file, the empty file, random books with 0..40 records, '
                       'trailing partial records, weights from {0,1,2,5,100,65535,random}, castling-like and promotion move words; for each key 3 seeds with the '
                       'residue replayed from std::mt19937 (model correspondence); loaded map (via private access), get_random_move and get_best_move compared C++ / model / spec; and, for any generator, the '
                       'distribution of the random policy over hundreds of seeds per book through the public interface (only recorded positive-weight moves, frequencies within 6 sigma of the weights)')
    feats = vbuild.harness_features()
    if 'VH_BOOK_HASHMAP' in feats:
        V.three_way(ctx, texts, line_proj(('book ', 'bookbest')), 'book file loading and best-move selection')
        # the exact draw (residue replayed from std::mt19937) is a datum of the MODEL correspondence only: the property does not fix
        # the generator, so a disagreement here without a property-level failure below is reported as a broken tie, not as a failing input
        V.three_way(ctx, texts, line_proj(('bookpick',)), 'book random selection (exact draw)', spec_proj=lambda l, s: None)
    else:
        V.three_way(ctx, texts, line_proj(('bookbest',)), 'book best-move selection')
        V.report_violation(ctx, 'book loading: the harness cannot read the loaded book of this tree (PolyglotBook::_hashmap is gone); loaded contents are not compared; no-failing-input-found',
                           '# broken tie: correspondence of the loaded book contents (private member PolyglotBook::_hashmap not present)\n', False, ident='no _hashmap')
    # property level, through the public interface only and for ANY generator: over many seeds the random policy draws only recorded moves of
    # positive weight, and each about as often as its weight says
    import math
    dplan = []
    for b in books:
        raw = bytes.fromhex(b) if b != '-' else b''
        ents = [(int.from_bytes(raw[i:i + 8], 'big'), int.from_bytes(raw[i + 10:i + 12], 'big')) for i in range(0, len(raw) - 15, 16)]
        ks = sorted(set(k for k, _ in ents))
        if ks and sum(w for k, w in ents if k == ks[0]) > 0:
            dplan.append((b, ks[0]))
    rng.shuffle(dplan)
    dplan = dplan[:40 if ctx.tier == 'quick' else 1200]
    nd = 400 if ctx.tier == 'quick' else 2000
    dtexts, cur = [], []
    for i, (b, key) in enumerate(dplan):
        cur += [f'pos {fens[i % len(fens)]}', f'bookdist {b} {key:x} {nd} {rng.randrange(1 << 30)}']
        if len(cur) >= 8:
            dtexts.append('\n'.join(cur) + '\n'); cur = []
    if cur:
        dtexts.append('\n'.join(cur) + '\n')
    from concurrent.futures import ThreadPoolExecutor

    def dwork(t):
        rc, C, err = V.run_cpp(ctx.exe, t)
        rl, M, S, _ = V.run_lean(ctx.drv, t)
        return t, C, M, S
    nbad = 0
    with ThreadPoolExecutor(max_workers=NPROC) as ex:
        for t, C, M, S in ex.map(dwork, dtexts):
            ops = t.splitlines()
            for i, op in enumerate(ops):
                if not op.startswith('bookdist') or i >= len(C) or i >= len(S):
                    continue
                ctx.cov['evaluations'] += 1
                ctx.count('random_policy_distributions')
                c, sp, mo = C[i], S[i], M[i]
                why = None
                if sp != mo:
                    why = f'model and spec disagree on the support: {mo} / {sp}'
                elif c.startswith('bookdist absent') or sp.startswith('bookdist absent'):
                    if c != sp:
                        why = f'key presence: cpp `{c}` spec `{sp}`'
                else:
                    sup = dict((int(x.split(':')[0]), int(x.split(':')[1])) for x in sp.split()[2:])
                    got = dict((int(x.split(':')[0]), int(x.split(':')[1])) for x in c.split()[2:])
                    tot = sum(sup.values())
                    n = sum(got.values())
                    for mv, k in got.items():
                        if sup.get(mv, 0) == 0:
                            why = f'the random policy drew move {mv} ({k} of {n} seeds), which is {"a weight-0 move" if mv in sup else "not recorded for this key"}'
                            break
                    if not why and tot > 0:
                        for mv, w in sup.items():
                            pr = w / tot
                            dev = abs(got.get(mv, 0) - n * pr)
                            if dev > 6 * math.sqrt(n * pr * (1 - pr)) + 4:
                                why = f'move {mv} has weight {w} of {tot} but was drawn {got.get(mv, 0)} times in {n} seeds (expected about {n * pr:.0f})'
                                break
                if why and nbad < 2:
                    nbad += 1
                    V.report_violation(ctx, 'book random policy: ' + why, '\n'.join(ops[max(0, i - 1):i + 1]) + f'\n# cpp : {c}\n# spec: {sp}\n', True, ident='bookdist ' + why[:80])
    ctx.count('books', len(books))
    ctx.count('picks', len(plan))
    hunt_if_needed(ctx, ok, 'book', lambda: None)
    uci_book_extra('C19')(ctx)
    return V.finish(ctx, 'proof', thm('C19'),
                    'C19_load (for every byte string the book is exactly the decoded complete records, in order), C19_best, C19_random (move i is picked iff the '
                    'residue lies in its weight interval; never weight 0), C19_decode; correspondence on loaded contents and on both policies with replayed residues',
                    checker_cmd('C19'))


def check_C20(ctx):
    import random
    ok = V.prepare(ctx, thm('C20'))
    ctx.trusted = TB_COMMON + ['Lean Float = IEEE-754 binary64 with the same libm-free operations (+, *, /, conversion); importance() values are re-extracted as bit patterns']
    ctx.assumptions = ['FloatFacts (monotone truncated scaling, 0 < ratio <= 1, trunc(0.7x) <= 7x/10) are hypotheses of the theorems; sampled here on the real doubles']
    rng = random.Random(ctx.seed * 11 + 3)
    n = 6000 if ctx.tier == 'quick' else 400000
    cases = []
    B = [0, 1, 2, 9, 10, 11, 99, 100, 101, 999, 1000, 59999, 60000, 3599999, 3600000, 86399999, 86400000]
    for left in B:
        for inc in (0, 1, 1000, 600000):
            for mtg in (0, 1, 2, 3, 49, 50, 51, 200):
                cases.append((left, inc, mtg, rng.choice([0, 1, 2, 30, 64, 65, 129, 500, 999, 1000])))
    while len(cases) < n:
        left = rng.choice([rng.randrange(86400001), rng.randrange(100000), rng.randrange(2000)])
        cases.append((left, rng.choice([0, rng.randrange(600001), rng.randrange(3000)]), rng.choice([0, rng.randrange(201)]), rng.randrange(1001)))
    lines = []
    for left, inc, mtg, ply in cases:
        side = rng.randrange(2)
        k = rng.choice([1, 1, 2, 10, 1000, rng.randrange(1, 100000)])
        lines.append(f'time {left} {inc} {mtg} {ply} {side}')
        lines.append(f'time {min(left + k, 86400000)} {inc} {mtg} {ply} {side}')
    per = max(2, (len(lines) // (NPROC * 2)) & ~1)
    texts = ['\n'.join(lines[i:i + per]) + '\n' for i in range(0, len(lines), per)]
    ctx.cov['rule'] = ('grid of boundary values (0,1,2,...,24h) x increments x movestogo x ply plus random interior points, each paired with (left + k) for the monotonicity '
                       'test; C++ calculateTime vs the Lean model instantiated with IEEE doubles (equality of the integer results); the property itself is evaluated on '
                       'the C++ outputs: 0 <= t, 10 t <= 7 left, t(left) <= t(left + k); plus `go` sessions with clocks, increments and movestogo over the real UCI loop (time until bestmove <= 70 % of the mover\'s clock + allowance)')
    md, sd = V.three_way(ctx, texts, line_proj(('time',)), 'time allocation',
                         spec_proj=lambda l, side: l.rsplit(' t=', 1)[0] if l.startswith('time') else None)
    # the property, directly on the implementation's outputs
    def work(text):
        return V.run_cpp(ctx.exe, text)[1]
    bad = None
    for text in texts:
        L = work(text)
        vals = []
        for l in L:
            d = dict(kv.split('=') for kv in l.split()[1:])
            vals.append((int(d['left']), int(d['inc']), int(d['mtg']), int(d['ply']), int(d['t'])))
        for i in range(0, len(vals) - 1, 2):
            a, b = vals[i], vals[i + 1]
            for v in (a, b):
                if v[4] < 0 or 10 * v[4] > 7 * v[0]:
                    bad = bad or (f'allotment {v[4]} outside [0, 0.7*{v[0]}]', v)
            if a[1:4] == b[1:4] and a[0] <= b[0] and a[4] > b[4]:
                bad = bad or (f'not monotone: t({a[0]})={a[4]} > t({b[0]})={b[4]}', a)
        if bad:
            break
    if bad:
        why, v = bad
        V.report_violation(ctx, 'time allocation: ' + why, f'time {v[0]} {v[1]} {v[2]} {v[3]} 0\n# {why}\n', True, ident=why)
    # the same bound at the protocol level: what `go wtime … winc … movestogo …` makes of the clock before the time manager sees it.
    # The search stops when its allotment is used up, so the wall time until `bestmove` bounds the allotment from below: it must stay
    # within 70 % of the mover's clock (plus a generous scheduling allowance) whatever the increment and the other side's clock are
    import uci_glue
    sess = [('startpos', 'go wtime 1000 btime 1000 winc 10000 binc 10000', 1000), ('startpos', 'go wtime 1500 btime 90000 winc 0 binc 30000', 1500),
            ('startpos moves e2e4', 'go wtime 90000 btime 1200 winc 30000 binc 5000', 1200), ('startpos', 'go wtime 2000 btime 2000 movestogo 1', 2000),
            ('startpos moves e2e4', 'go wtime 60000 btime 800 movestogo 1', 800), ('startpos', 'go wtime 900 btime 900 winc 900 binc 900 movestogo 40', 900)]
    from concurrent.futures import ThreadPoolExecutor

    def usess(j):
        posn, go, clock = j
        res, dead, stderr = uci_glue.run_script(ctx.exe, [f'position {posn}', go])
        return j, res, dead
    allowance = 1.5
    with ThreadPoolExecutor(max_workers=3) as ex:
        for (posn, go, clock), res, dead in ex.map(usess, sess):
            ctx.cov['evaluations'] += 1
            ctx.count('uci_clock_sessions')
            el = res[1][2] if len(res) > 1 else None
            if dead or el is None:
                V.report_violation(ctx, f'`{go}` was not answered: {dead}', f'position {posn}\n{go}\n', True, ident='c20 uci ' + go)
            elif el > 0.7 * clock / 1000.0 + allowance:
                V.report_violation(ctx, f'`{go}`: bestmove came after {el:.2f} s with {clock} ms on the mover\'s clock (70 % = {0.7 * clock / 1000:.2f} s, allowance {allowance} s): the allotment exceeds the bound',
                                   f'position {posn}\n{go}\n# bestmove after {el:.2f} s\n', True, ident='c20 uci ' + go)
    hunt_if_needed(ctx, ok, 'time allocation', lambda: None)
    uci_glue_extra('C20')(ctx)
    return V.finish(ctx, 'proof', thm('C20'),
                    'C20_bounds and C20_monotone are proved for every FloatOps satisfying FloatFacts (hypotheses, not axioms), for all integer inputs; the model with '
                    'IEEE doubles agrees with the C++ on every sampled input and the property is evaluated directly on the C++ outputs', checker_cmd('C20'))


# ------------------------------------------------------------------ search family (C05, C06, C08, C09, C10)
def parse_kv(line):
    d = {}
    for t in line.split()[1:]:
        if '=' in t:
            k, v = t.split('=', 1)
            d[k] = v
    return d


def go_run(ctx, texts, timeout=1500):
    """run scenario chunks through the harness and pipe the search blocks into `leandrv accept`.
    Returns a list of dicts: go (the GO line), acc, spec, end (dicts), crash (stderr tail or None)."""
    import subprocess
    from concurrent.futures import ThreadPoolExecutor

    def work(text):
        try:
            rc, C, err = V.run_cpp(ctx.exe, text, timeout=timeout)
        except subprocess.TimeoutExpired:
            return text, None, [], 'TIMEOUT: the harness did not finish (a search that does not terminate?)'
        blocks = '\n'.join(l for l in C if l.split(' ', 1)[0] in ('GO', 'R', 'E', 'INFO', 'BESTMOVE', 'OUT', 'END')) + '\n'
        p = subprocess.run([ctx.drv, 'accept'], input=blocks, stdout=subprocess.PIPE, stderr=subprocess.PIPE, text=True, errors='replace', timeout=timeout)
        return text, (rc, C, p.stdout.splitlines()), [], err if rc != 0 else None

    out = []
    with ThreadPoolExecutor(max_workers=NPROC) as ex:
        for text, res, _, err in ex.map(work, texts):
            if res is None:
                out.append({'go': text.strip().splitlines()[-1] if text.strip() else '', 'crash': err, 'text': text, 'acc': {}, 'spec': {}, 'end': {}, 'accline': ''})
                continue
            rc, C, verdicts = res
            gos = [l for l in C if l.startswith('GO ')]
            ends = [l for l in C if l.startswith('END ')]
            accs = [l for l in verdicts if l.startswith('ACC ')]
            specs = [l for l in verdicts if l.startswith('SPEC ')]
            # map each go back to the scenario prefix that produced it (pos ... go)
            ops = text.splitlines()
            go_idx = [i for i, o in enumerate(ops) if o.startswith(('go ', 'smgo '))]
            for j, g in enumerate(gos):
                upto = go_idx[j] if j < len(go_idx) else len(ops) - 1
                out.append({'go': g, 'accline': accs[j] if j < len(accs) else 'ACC missing', 'acc': parse_kv(accs[j]) if j < len(accs) else {},
                            'spec': parse_kv(specs[j]) if j < len(specs) else {}, 'end': parse_kv(ends[j]) if j < len(ends) else {},
                            'crash': None, 'text': '\n'.join(ops[:upto + 1]) + '\n'})
            if rc != 0:
                first = [l for l in (err or '').splitlines() if 'ERROR' in l or 'runtime error' in l or 'SUMMARY' in l]
                upto = go_idx[len(gos)] if len(gos) < len(go_idx) else len(ops) - 1
                out.append({'go': ops[upto] if ops else '', 'crash': (first or (err or '?').strip().splitlines() or ['?'])[0][:400] + ' | ' + (err or '')[-600:],
                            'text': '\n'.join(ops[:upto + 1]) + '\n', 'acc': {}, 'spec': {}, 'end': {}, 'accline': ''})
    return out


def corpus_fens():
    return [l.strip() for l in open(CORPUS) if l.strip() and not l.startswith('#')]


def search_positions(ctx, n, rng):
    fens = corpus_fens()
    rng.shuffle(fens)
    return fens[:n]


def judge(ctx, runs, label, spec_fail, acc_required=True, max_report=3, hunt=None):
    """spec_fail(run) -> reason or None (a property violated on the implementation's own output = concrete);
    a rejected trace is a broken correspondence."""
    nrep = 0
    for r in runs:
        ctx.cov['evaluations'] += 1
        ctx.distinct.add(hash(r['go']))
        if r['crash']:
            ctx.count('crash')
            if nrep < max_report:
                V.report_violation(ctx, f'{label}: sanitizer abort / crash / timeout', r['text'] + '# ' + r['crash'] + '\n', True, ident=r['text'] + r['crash'][:120])
                nrep += 1
            continue
        why = spec_fail(r)
        if why:
            ctx.count('spec_fail')
            if nrep < max_report:
                V.report_violation(ctx, f'{label}: {why}', r['text'] + f"# {r['go']}\n# {r['accline']}\n# SPEC {r['spec']}\n# END {r['end']}\n", True, ident=r['text'] + why)
                nrep += 1
    rejected = [r for r in runs if not r['crash'] and not r['accline'].startswith('ACC ok')]
    if hunt and rejected and acc_required and not any(v['concrete'] for v in ctx.violations):
        # the tie broke: search for a concrete input on which the property itself fails
        more = hunt()
        ctx.count('hunt_runs', len(more))
        for r in more:
            why = None if r['crash'] else spec_fail(r)
            if r['crash'] or why:
                V.report_violation(ctx, f'{label}: {why or "crash"} (found by the hunt after a trace was rejected)',
                                   r['text'] + f"# {r['go']}\n# SPEC {r['spec']}\n# END {r['end']}\n# {r['crash'] or ''}\n", True, ident=r['text'] + str(why))
                break
    if not any(v['concrete'] for v in ctx.violations) and acc_required:
        for r in runs:
            if not r['crash'] and not r['accline'].startswith('ACC ok'):
                ctx.count('trace_rejected')
                if nrep < max_report:
                    V.report_violation(ctx, f'{label}: search trace rejected by the acceptor ({r["accline"][:160]}); the properties still hold on this run\'s output; no-failing-input-found',
                                       r['text'] + f"# {r['go']}\n# {r['accline']}\n# broken tie: trace acceptance (Model/SearchTrace.lean)\n", False, ident=r['text'] + r['accline'])
                    nrep += 1
    if len(ctx.cov['samples']) < 3 and runs:
        for r in runs[:2]:
            ctx.cov['samples'].append({'go': r['go'], 'acc': r['accline'][:200], 'spec': r['spec']})


def c05_fail(r):
    s, e = r['spec'], r['end']
    if s.get('hasmoves') != '1':
        return None
    if s.get('onebest') != '1' or e.get('nbest') != '1':
        return f"not exactly one bestmove line (nbest={e.get('nbest')})"
    if s.get('bestlegal') != '1':
        return 'bestmove is not a legal move of the position'
    if s.get('pvlegal') != '1':
        return 'a printed pv is not a sequence of legal moves'
    if e.get('restored') != '1':
        return 'the search did not restore its position'
    return None


def go_scenarios_c05(ctx, rng, npos, stopks, depthmax):
    texts = []
    fens = search_positions(ctx, npos, rng)
    lab = [l[4:] for l in V.lean_gen(ctx.drv, ['lab', ctx.seed * 1000 + 333, npos]).splitlines() if l.startswith('pos ')]
    for i, fen in enumerate(fens + lab[:npos // 2]):
        ops = [f'pos {fen}']
        ops.append(f'go depth {rng.randrange(1, depthmax + 1)}')
        ops.append(f'go depth {depthmax} stopvisit {rng.choice(stopks)}')
        ops.append(f'go depth {depthmax} stopvisit {rng.choice(stopks)}')
        ops.append(f'go depth {rng.randrange(1, depthmax + 1)} poison {rng.randrange(1 << 30)} {rng.choice([5, 30, 120])}')
        ops.append(f'go depth {depthmax} stopvisit {rng.choice(stopks)} poison {rng.randrange(1 << 30)} 40')
        ops.append(rng.choice(['go movetime 1', 'go wtime 1 btime 1', 'go wtime -5 btime -5 winc 0', 'go nodes 1', 'go wtime 30 btime 30 movestogo 1',
                               'go depth 2 stoppoint 0 1', 'go depth 2 stoppoint 1 1', 'go depth 3 stoppoint 3 1', 'go depth 2 stoppoint 4 1']))
        if i % 3 == 0:
            ops.append('newgame')
        texts.append('\n'.join(ops) + '\n')
    return texts


def check_C05(ctx):
    import random
    ok = V.prepare(ctx, thm('C05'))
    ctx.trusted = TB_COMMON + ['CHESSPP_VERIF hooks report what the search does (add-only instrumentation)']
    ctx.assumptions = ['positions have at least one legal move', 'searchmoves lists contain legal moves (well-formed session)']
    rng = random.Random(ctx.seed * 13 + 5)
    q = (40, [1, 2, 3, 5, 8, 20, 60, 150, 300], 3) if ctx.tier == 'quick' else (400, list(range(1, 400)) + [1000, 5000, 20000], 4)
    texts = go_scenarios_c05(ctx, rng, q[0], q[1], q[2])
    # searches from inside games (key history present: repetitions and 50-move draws occur inside the tree)
    head, games = V.split_games(V.lean_gen(ctx.drv, ['play', ctx.seed * 1000 + 71, q[0] // 2, 60, 1000, CORPUS]))
    for g in games:
        ops = [o for o in g if o.startswith(('pos ', 'do ', 'undo', 'null'))]
        cut = rng.randrange(min(4, len(ops)), len(ops) + 1) if len(ops) > 4 else len(ops)
        ops = ops[:cut]
        ops.append(f'go depth {rng.randrange(2, q[2] + 1)}')
        ops.append(f'go depth {q[2]} stopvisit {rng.choice(q[1])}')
        texts.append('\n'.join(ops) + '\n')
    # searchmoves subsets
    for fen in search_positions(ctx, q[0] // 4, rng):
        texts.append(f'pos {fen}\nsmgo {rng.randrange(1 << 30)} 2\nsmgo {rng.randrange(1 << 30)} 3\n')
    # restricted searches deep enough for internal iterative deepening at the root (depth > 5), right after a deeper unrestricted
    # search of the same position and on poisoned tables: whatever the table holds under the root key, the answer is a root move
    deep = ['rnbqkbnr/pppppppp/8/8/8/8/PPPPPPPP/RNBQKBNR w KQkq - 0 1', 'r1bqkbnr/pppp1ppp/2n5/4p3/4P3/5N2/PPPP1PPP/RNBQKB1R b KQkq - 2 2',
            '8/2p5/3p4/KP5r/1R3p1k/8/4P1P1/8 w - - 0 1', '6k1/5ppp/8/8/8/8/5PPP/R5K1 w - - 0 1', '8/8/4k3/p1p1p1p1/P1P1P1P1/8/4K3/8 w - - 0 1']
    for fen in (deep[:3] if ctx.tier == 'quick' else deep):
        texts.append(f'pos {fen}\ngo depth 7\nsmgo {rng.randrange(1 << 30)} 6\nsmgo {rng.randrange(1 << 30)} 7\n')
        for _ in range(2 if ctx.tier == 'quick' else 8):
            texts.append(f'pos {fen}\nsmgo {rng.randrange(1 << 30)} {rng.choice([6, 7])} poison {rng.randrange(1 << 30)} 60\n')
    runs = go_run(ctx, texts)
    ctx.cov['rule'] = (f'{len(texts)} sessions on corpus + lab positions: go with depth 1..{q[2]} (and searchmoves-restricted depth 6-7 searches after a deeper unrestricted one and on poisoned tables), stop delivered after exactly k node visits (k from {q[1][:6]}...), at go-entry / after-init / '
                       'iteration-end / before-bestmove, adversarially poisoned transposition tables (root key and keys 1-2 plies below; illegal/other-position moves, all flags, '
                       'depths 0..60, scores across the mate range, old and current epochs), tiny/negative clocks, nodes 1, searchmoves subsets; every run\'s hook trace is fed to the '
                       'Lean acceptor and its output to the rules spec; distinct = distinct (position, go line)')
    def hunt():
        head, games = V.split_games(V.lean_gen(ctx.drv, ['play', ctx.seed * 1000 + 72, 160, 80, 1000, CORPUS]))
        ts = []
        for g in games:
            ops = [o for o in g if o.startswith(('pos ', 'do ', 'undo', 'null'))]
            out, k = [], 0
            for o in ops:
                out.append(o)
                k += 1
                if k % 7 == 0:
                    out.append(f'go depth {rng.randrange(2, 5)} notrace')
                    out.append(f'go depth 4 notrace stopvisit {rng.choice(q[1])}')
            ts.append('\n'.join(out) + '\n')
        return go_run(ctx, ts)
    judge(ctx, runs, 'go -> bestmove', c05_fail, hunt=hunt)
    for k in ('stopvisit', 'poison', 'stoppoint', 'searchmoves', 'movetime', 'wtime', 'nodes'):
        ctx.count('go_with_' + k, sum(1 for r in runs if k in r['go']))
    ctx.count('no_iteration_completed', sum(1 for r in runs if r['acc'].get('done') == '[]'))
    hunt_if_needed(ctx, ok, 'go -> bestmove', lambda: None)
    uci_glue_extra('C05')(ctx)
    # the two-thread front end: `go` immediately followed by `stop` must still be answered by exactly one bestmove
    import uci_sched
    from concurrent.futures import ThreadPoolExecutor
    gs_jobs = [(fen, go) for fen in ['rnbqkbnr/pppppppp/8/8/8/8/PPPPPPPP/RNBQKBNR w KQkq - 0 1', 'r3k2r/p1ppqpb1/bn2pnp1/3PN3/1p2P3/2N2Q1p/PPPBBPPP/R3K2R w KQkq - 0 1']
               for go in ('go infinite', 'go depth 30', 'go wtime 600000 btime 600000')]
    with ThreadPoolExecutor(max_workers=6) as ex:
        gs_res = list(ex.map(lambda j: uci_sched.session(ctx.exe, j[0], None, go=j[1], kill_at_end=True), gs_jobs))
    for (fen, go), r in zip(gs_jobs, gs_res):
        ctx.cov['evaluations'] += 1
        ctx.count('uci_go_stop_sessions')
        nb = len(r['bestmoves'])
        if nb != 1:
            V.report_violation(ctx, f'UCI front end: `{go}` followed at once by `stop` was answered by {nb} bestmove lines within 6 s',
                               f'# feed to the chessplusplus binary in ONE write:\nposition fen {fen}\n{go}\nstop\nisready\n', True, ident=f'go-stop {go} {nb}')
            break
    return V.finish(ctx, 'proof', thm('C05'),
                    'theorems over the trace automaton (Props/C05.lean): every accepted trace ends in exactly one BESTMOVE naming a root move and every reported pv is a legal line; '
                    'tie = every hooked search run is accepted by the automaton (a rejected trace is a broken correspondence) and the printed bestmove/pv are checked by the rules spec',
                    checker_cmd('C05'))


def check_C06(ctx):
    import random
    import uci_sched
    ok = V.prepare(ctx, thm('C06'))
    ctx.trusted = TB_COMMON + ['sequential consistency of std::atomic<bool> (seq_cst default)', 'OS scheduler fairness', 'ThreadSanitizer as supporting evidence for race freedom']
    ctx.assumptions = ['"short time" is measured in search-thread steps (no node is expanded after stop() has been called) and, on the real binary, as < 2 s after the stop on this machine',
                       'STOP_FLAG_ATOMIC is read from decltype(Search::stop_search) of the build']
    rng = random.Random(ctx.seed * 29 + 6)
    heavy = ['k7/8/1r1q1r1q/b1q1n1q1/1Q1N1Q1B/Q1R1Q1R1/8/7K w - - 0 1', 'r3k2r/p1ppqpb1/bn2pnp1/3PN3/1p2P3/2N2Q1p/PPPBBPPP/R3K2R w KQkq - 0 1',
             'r1n1n1b1/1P1P1P1P/1N1N1N2/2RnQrRq/2pKp3/3BNQbQ/k7/4Bq2 w - - 0 1', 'rnbqkbnr/pppppppp/8/8/8/8/PPPPPPPP/RNBQKBNR w KQkq - 0 1']
    # part 1: single-threaded, deterministic: stop() called at exactly the k-th node visit / at each schedule point
    ks = sorted(set([1, 2, 3, 4, 5, 7, 10, 15, 25, 40, 70, 100, 150, 200] + [rng.randrange(1, 3000) for _ in range(20 if ctx.tier == 'quick' else 400)]))
    texts = []
    for fen in heavy + search_positions(ctx, 4 if ctx.tier == 'quick' else 40, rng):
        ops = [f'pos {fen}']
        for k in ks:
            ops.append(f'go depth 5 stopvisit {k}')
        for pt, nth in ((0, 1), (1, 1), (3, 1), (3, 2), (4, 1)):
            ops.append(f'go depth 3 stoppoint {pt} {nth}')
        # stop() called from inside the write of the k-th info line: between print_info and the rest of the iteration loop
        for k in (1, 2, 3):
            ops.append(f'go depth 6 stopinfo {k}')
        texts.append('\n'.join(ops) + '\n')
    runs = go_run(ctx, texts)

    def fail1(r):
        a, e, s = r['acc'], r['end'], r['spec']
        if s.get('hasmoves') != '1':
            return None
        if e.get('nbest') != '1':
            return f"{e.get('nbest')} bestmove lines after the stop"
        if a.get('expandedAfterStop', '0') != '0':
            return f"{a['expandedAfterStop']} nodes were still expanded after stop() had been called (the flag is not polled at every node visit)"
        if a.get('visitsAfterStop') and int(a['visitsAfterStop']) > (int(a.get('maxply', 0)) + 2) * 256:
            return f"{a['visitsAfterStop']} node visits after the stop"
        return None
    ctx.cov['rule'] = (f'part 1: stop() called at exactly node visit k (k in {ks[:8]}... {len(ks)} values) and at go-entry / after-init / iteration-end / before-bestmove on capture-rich and corpus '
                       'positions; the hook trace must show no node expanded after the call, a bounded number of unwinding visits and exactly one bestmove.  part 2: the real two-thread UCI front end '
                       'driven through pipes with the search thread parked (VERIF_PARK) at each schedule point — incl. right after its k-th clock read (steady_clock::now interposed by the harness) — while stop/isready arrive, and a second `go` sent the moment the first `bestmove` is visible (the writing thread parked right after the write): one bestmove within 2 s of the stop, readyok while parked.  '
                       'part 3: the same sessions under ThreadSanitizer')
    judge(ctx, runs, 'stop handling (deterministic schedule points)', fail1)
    # part 2: real threads
    exe = ctx.exe
    scheds = [None, (0, 1, 400), (1, 1, 400), (2, 1, 400), (2, 2, 400), (2, 50, 400), (2, 1000, 400), (3, 1, 400), (3, 2, 400), (4, 1, 400)]
    jobs = []
    for fen in heavy[:3] if ctx.tier == 'quick' else heavy:
        for park in scheds:
            jobs.append((fen, park, 'go infinite', False))
            if park:
                jobs.append((fen, park, 'go infinite', True))
        jobs.append((fen, (4, 1, 400), 'go depth 2', False))
        for k in (1, 2, 3, 4, 6):
            jobs.append((fen, None, 'go infinite', ('info', k)))
        # point 9 = the search thread's k-th clock read (interposed steady_clock::now): the stop lands between the read and whatever
        # the code decides from it
        for k in (1, 2, 3, 5, 9, 17, 33):
            jobs.append((fen, (9, k, 400), 'go infinite', True))
        jobs.append((fen, (9, 4, 400), 'go movetime 60000', True))
    from concurrent.futures import ThreadPoolExecutor

    def one(j):
        fen, park, go, onpark = j
        if isinstance(onpark, tuple):
            return j, uci_sched.session(exe, fen, park, go=go, stop_on_info=onpark[1], kill_at_end=True)
        return j, uci_sched.session(exe, fen, park, go=go, stop_on_park=onpark)
    nrep = 0
    with ThreadPoolExecutor(max_workers=max(2, NPROC // 2)) as ex:
        for (fen, park, go, onpark), r in ex.map(one, jobs):
            ctx.cov['evaluations'] += 1
            ctx.distinct.add(hash((fen, park, go, onpark)))
            why = None
            nb = len(r['bestmoves'])
            if nb != 1:
                why = f'{nb} bestmove lines (expected exactly 1) within 6 s'
            else:
                t_best = r['bestmoves'][0][0]
                ref = max(r['stop_t'], (r['parked_t'] + park[2] / 1000.0) if (park and r['parked_t'] is not None) else 0, 0.0)
                startup = 0.6   # process start-up (sanitizer + bitbase initialisation) when stop is sent at once
                if t_best - ref > 2.0 + startup:
                    why = f'bestmove {t_best - ref:.2f} s after the stop'
            if r['readyok_t'] is None or r['readyok_t'] - r['ready_sent'] > 1.5 + 0.6:
                why = why or 'isready was not answered with readyok while the search was running/parked'
            if 'ERROR: AddressSanitizer' in r['stderr'] or 'runtime error' in r['stderr']:
                why = why or 'sanitizer report in the threaded session'
            ctx.count('uci_sessions')
            if isinstance(onpark, tuple):
                ctx.count('stop_sent_on_info_line')
            elif onpark:
                ctx.count('stop_sent_while_parked')
            if why and nrep < 3:
                nrep += 1
                V.report_violation(ctx, 'stop handling (real threads): ' + why,
                                   f'# run: VERIF_PARK={park} cppdrv uci\nposition fen {fen}\n{go}\nstop   # {("sent the moment info line #%d appears" % onpark[1]) if isinstance(onpark, tuple) else ("sent when the search thread reports PARKED" if onpark else "sent back to back with go")}\nisready\n'
                                   f'# observed: bestmoves={r["bestmoves"]} stop_t={r["stop_t"]:.3f} parked_t={r["parked_t"]} readyok_t={r["readyok_t"]}\n', True,
                                   ident=f'{fen} {park} {go} {onpark} {why}')
    # part 2b: the GUI's next `go` arrives the moment the previous `bestmove` is visible, while the thread that wrote it is still parked
    # right after the write (output interposed by the harness): the second `go` must be answered as well
    START = 'rnbqkbnr/pppppppp/8/8/8/8/PPPPPPPP/RNBQKBNR w KQkq - 0 1'
    for fen in [START] + list(heavy[:2 if ctx.tier == 'quick' else 6]):
        r = uci_sched.go_again_session(exe, fen)
        ctx.cov['evaluations'] += 1
        ctx.count('go_right_after_bestmove_sessions')
        ctx.count('go_right_after_bestmove_parked' if r['parked'] else 'go_right_after_bestmove_NOT_parked')
        if not r['parked']:
            ctx.notes.append('the after-bestmove schedule point did not fire in a go-again session (the engine no longer writes `bestmove` through stdio?): that schedule was not exercised')
        if r['first'] == 0:
            # the first `go depth 1` itself was not answered within the wait (a depth-1 search has no time limit of its own; on a loaded
            # machine the sanitizer build can need longer on the capture-rich positions): nothing was learnt about the second `go`
            ctx.count('go_right_after_bestmove_inconclusive_first_search_too_slow')
            ctx.notes.append(f'go-again session on {fen}: the first `go depth 1` was not answered within 8 s; session inconclusive')
            continue
        if len(r['bestmoves']) != 2:
            V.report_violation(ctx, f"a `go` sent the moment the previous bestmove became visible was answered by {len(r['bestmoves']) - r['first']} bestmove lines (expected 1)",
                               f'# run: VERIF_PARK=8:1:500 cppdrv uci   (the thread that writes `bestmove` is parked right after the write)\nposition fen {fen}\ngo depth 1\n'
                               f'# … as soon as `bestmove` appears:\nposition fen {fen}\ngo depth 1\n# observed bestmove lines: {r["bestmoves"]} parked={r["parked"]}\n', True,
                               ident='go-again ' + fen)
    # part 3: ThreadSanitizer (supporting evidence)
    try:
        texe, _ = vbuild.build_harness('tsan')
        races = 0
        for fen, park, go, onpark in [(heavy[0], None, 'go infinite', False), (heavy[1], (2, 50, 300), 'go infinite', True), (heavy[3], (0, 1, 300), 'go infinite', False),
                                      (heavy[3], (3, 1, 200), 'go infinite', True)]:
            r = uci_sched.session(texe, fen, park, go=go, stop_on_park=onpark, wait=12.0, kill_at_end=True)
            ctx.count('tsan_sessions')
            if 'ThreadSanitizer: data race' in r['stderr']:
                races += 1
                if races == 1:
                    blk = r['stderr'][r['stderr'].index('WARNING: ThreadSanitizer'):][:2500]
                    V.report_violation(ctx, 'ThreadSanitizer reports a data race in a go/stop session',
                                       f'# TSan build, VERIF_PARK={park}\nposition fen {fen}\n{go}\nstop\n# ' + blk.replace('\n', '\n# ') + '\n', True, ident='tsan ' + blk[:300])
    except Exception as e:
        ctx.notes.append('TSan part skipped: ' + str(e)[:200])
    hunt_if_needed(ctx, ok, 'stop handling', lambda: None)
    return V.finish(ctx, 'proof', thm('C06'),
                    'PARTIAL by nature: theorems over the two-thread handshake model (Props/C06.lean): in every fair schedule a stop is followed by exactly one bestmove within a bounded number of '
                    'search-thread steps, isready is answered, and with an atomic flag no step pair races; wall-clock promptness, OS scheduling and weaker memory orders are outside the model. '
                    'Tie: schedule points enumerated on the real code (in-process deterministic stop points, and the real threads parked at each point)', checker_cmd('C06'))


VALUE_MATE = 640000


def c08_fail(r):
    s, a = r['spec'], r['acc']
    if s.get('hasmoves') != '1':
        return None
    m = s.get('mate', 'none')
    if m.startswith('bad'):
        return f'final info line announces "{m[4:]}" but the exhaustive mate solver refutes it'
    if s.get('mate1') == 'bad':
        return 'a mate in one exists but the bestmove does not deliver mate'
    if a.get('worst') and int(a['worst']) > VALUE_MATE:
        return f"a node returned a value beyond the mate range (|v| = {a['worst']} > VALUE_MATE)"
    return None


def check_C08(ctx):
    import random
    ok = V.prepare(ctx, thm('C08'))
    ctx.trusted = TB_COMMON + ['Spec.Mate exhaustive AND/OR solver (rules spec) with a node budget; verdict "unknown" is not counted as a failure']
    ctx.assumptions = ['the global claim (no false announcement for every position/depth/session) is NOT a theorem of this search algorithm (unverified null-move pruning, LMR); it is explored, see level text']
    rng = random.Random(ctx.seed * 17 + 9)
    nm = 60 if ctx.tier == 'quick' else 1500
    mates = [l.split(' ', 1) for l in V.lean_gen(ctx.drv, ['mates', ctx.seed + 40, nm]).splitlines() if l.strip()]
    texts = []
    for kind, fen in mates:
        f = fen.split()
        ops = ['newgame'] if rng.random() < 0.5 else []
        variants = [fen]
        if rng.random() < 0.3:
            f2 = f[:]; f2[4] = str(rng.choice([97, 98, 99])); variants.append(' '.join(f2))
        for v in variants:
            ops.append(f'pos {v}')
            for d in ([1, 2, 3] if kind == '1' else [2, 3, 4]):
                ops.append(f'go depth {d}')
            # follow the engine's own line with a warm table, as a GUI would
            ops += ['playbest', 'go depth 3', 'playbest', 'go depth 3']
        texts.append('\n'.join(ops) + '\n')
        # the table after RESTRICTED searches of the same position (searchmoves subsets, most of them without the mating move):
        # whatever they leave behind, the next unrestricted search of depth >= 1 must still deliver the mate in one
        if kind == '1':
            ops = [f'pos {fen}']
            for d in (2, 1, 3):
                ops += [f'smgo {rng.randrange(1 << 30)} {d}', f'smgo {rng.randrange(1 << 30)} {rng.randrange(1, 4)}', f'go depth {rng.randrange(1, 4)}']
            texts.append('\n'.join(ops) + '\n')
    # ordinary and zugzwang-rich positions: no mate may be announced
    sp = search_positions(ctx, 30 if ctx.tier == 'quick' else 300, rng)
    for fen in sp:
        texts.append(f'pos {fen}\ngo depth {rng.randrange(1, 4)}\ngo depth {rng.randrange(2, 5)}\nplaybest\ngo depth 3\n')
    # searches cut off by a node budget in the middle of an iteration, then shallow searches that read what they left in the table:
    # a half-searched node must not leave a bound behind that a later search turns into a mate announcement
    tactical = ['6k1/pp6/1q3Pp1/2r5/8/1P6/P1PQ1PP1/6KR w - - 0 1', 'r1b2rk1/pp3ppp/2n1pn2/q7/2BP4/2N2N2/PP2QPPP/R4RK1 w - - 0 1',
                '2r3k1/5ppp/8/8/8/2Q5/5PPP/3R2K1 w - - 0 1', '6k1/5ppp/8/8/8/8/1q3PPP/2R3K1 b - - 0 1']
    cut = tactical + [mirror_fen(f) for f in tactical] + [fen for _, fen in mates[:10 if ctx.tier == 'quick' else 200]] + sp[:10 if ctx.tier == 'quick' else 100]
    for fen in cut:
        ops = [f'pos {fen}']
        for _ in range(2):
            ops += [f'go nodes {rng.choice([150, 400, 1000, 2500, 5000])}', f'go depth {rng.randrange(1, 3)}']
        texts.append('\n'.join(ops) + '\n')
    # back-rank threats where the side that is a queen down after a capture can only be saved by a QUIET move (making luft, stepping
    # aside): pruning of quiet moves at the frontier must not turn "all searched replies get mated" into a mate announcement
    # … and positions where the saving reply is a quiet PROMOTION (a push to the last rank is not a capture, but it is not a quiet move)
    promosave = ['6k1/5ppp/5n2/3q4/3Q4/8/1p3PPP/4R1K1 w - - 0 1', '6k1/5ppp/8/3q4/3Q4/8/p4PPP/3R2K1 w - - 0 1', '2k5/8/8/8/8/8/1p3PPP/R5K1 w - - 0 1']
    for fen in promosave + [mirror_fen(f) for f in promosave]:
        texts.append(f'newgame\npos {fen}\n' + ''.join(f'go depth {d}\n' for d in (1, 2, 3, 4)))
    quietsave = ['6k1/5ppp/5n2/3q4/3Q4/8/5PPP/4R1K1 w - - 0 1', '6k1/5ppp/5n2/3r4/3Q4/8/5PPP/4R1K1 w - - 0 1', '6k1/5ppp/5b2/3q4/3Q4/8/5PPP/3R2K1 w - - 0 1',
                 '5rk1/5ppp/8/3q4/3Q4/8/5PPP/3RR1K1 w - - 0 1', '2r3k1/5ppp/8/8/3n4/4B3/5PPP/2R3K1 w - - 0 1']
    for fen in quietsave + [mirror_fen(f) for f in quietsave]:
        texts.append(f'newgame\npos {fen}\n' + ''.join(f'go depth {d}\n' for d in (1, 2, 3, 4)))
    # an army against a bare king: the static evaluation is huge, but only a forced mate may be announced as one
    for fen in ['8/4k3/2P5/8/8/6Q1/2P5/RNBQKBNR w - - 0 1', '8/8/8/7k/8/QQQ5/QQQ5/QQQ4K w - - 0 1', '7k/8/8/8/8/RRRR4/RRRR4/RR5K w - - 0 1']:
        for f in (fen, mirror_fen(fen)):
            texts.append(f'newgame\npos {f}\n' + ''.join(f'go depth {d}\n' for d in (1, 2)))
    for fen in ['8/8/8/8/5k2/7p/8/R3K3 w - - 0 1', '8/8/8/8/8/5k2/5p2/5K2 b - - 0 1', '8/8/p7/1p6/1P6/P7/8/k1K5 w - - 0 1', '8/8/8/3k4/8/3K4/3P4/8 w - - 0 1',
                '8/k7/3p4/p2P1p2/P2P1P2/8/8/K7 w - - 0 1', '7k/8/5N1K/6N1/8/8/8/8 w - - 0 1']:
        texts.append(f'newgame\npos {fen}\n' + ''.join(f'go depth {d}\n' for d in (1, 2, 3, 4, 5)))
    # "mates" that are none: a double pawn push gives a check whose only answer is the en-passant capture of the checking pawn
    ep_escape = ['8/8/6pp/7k/5P1p/7K/6P1/8 w - - 0 1', '8/3b2p1/5k2/7P/7K/r7/8/8 b - - 0 1', '8/8/8/3k4/3pP3/8/8/4K3 b - e3 0 1',
                 '6k1/5ppp/8/8/4Pp2/5K2/8/2r3r1 b - e3 0 1']
    # … and checks whose only answer is a pawn's DOUBLE step onto the checking line (an interposition the generator derives from the single push)
    dbl_escape = ['8/1p1N4/p7/k7/8/1K6/8/7R w - - 0 1', '3bkr2/1p2pp2/p7/8/8/8/5PPP/3Q2K1 w - - 0 1', 'r7/8/6k1/8/7K/1r6/6P1/8 b - - 0 1']
    for fen in dbl_escape + [mirror_fen(f) for f in dbl_escape]:
        texts.append(f'newgame\npos {fen}\n' + ''.join(f'go depth {d}\n' for d in (1, 2, 3)) + 'playbest\ngo depth 2\n')
    for fen in ep_escape + [mirror_fen(f) for f in ep_escape]:
        texts.append(f'newgame\npos {fen}\n' + ''.join(f'go depth {d}\n' for d in (1, 2, 3, 4)) + 'playbest\ngo depth 3\n')
    runs = go_run(ctx, texts)
    ctx.cov['rule'] = (f'{len(mates)} positions with a forced mate in 1 or 2 found by the SPEC solver (some with half-move clock 97-99), searched at depths 1..4 and then followed along the engine\'s own '
                       'moves with a warm table (playbest), unrestricted searches right after searchmoves-restricted searches of the same mate-in-one position, node-budget searches cut off mid-iteration followed by shallow searches on tactical and mate positions, armies against a bare king, plus corpus and pawn-endgame positions at depths 1..5; every final "score mate y" is checked by the exhaustive solver (|y| <= 3), mate-in-one '
                       'must be played, and no node may return a value beyond VALUE_MATE (acceptor field worst)')
    judge(ctx, runs, 'mate announcements', c08_fail)
    ctx.count('mate_announcements_verified', sum(1 for r in runs if r['spec'].get('mate', '').startswith('ok')))
    ctx.count('mate_announcements_unknown_or_unchecked', sum(1 for r in runs if r['spec'].get('mate', '').startswith(('unknown', 'unchecked'))))
    ctx.count('mate_in_one_played', sum(1 for r in runs if r['spec'].get('mate1') == 'ok'))
    hunt_if_needed(ctx, ok, 'mate announcements', lambda: None)
    return V.finish(ctx, 'proof', thm('C08'),
                    'PARTIAL by nature: proved in Lean are the score algebra (mate range, win_in/lost_in adjustments, plies->moves printing) and "no value beyond VALUE_MATE escapes an accepted trace"; '
                    'the global soundness of announcements is explored with the spec\'s exhaustive mate solver as oracle on generated mate positions and warm-table sessions', checker_cmd('C08'))


def c09_fail(r):
    s = r['spec']
    if s.get('hasmoves') != '1':
        return None
    if s.get('depthsok') != '1':
        return 'reported iteration depths are not 1,2,3,... consecutively'
    if s.get('indepth') != '1':
        return 'an iteration deeper than the depth limit was reported'
    if s.get('insearchmoves') != '1':
        return 'bestmove is not one of the searchmoves'
    if s.get('onebest') != '1':
        return 'not exactly one bestmove'
    return None


def check_C09(ctx):
    import random
    ok = V.prepare(ctx, thm('C09'))
    ctx.trusted = TB_COMMON
    ctx.assumptions = ['termination is observed with a generous wall-clock timeout per session, it is not proved for the aspiration re-search loop (DESIGN §6 C09)']
    rng = random.Random(ctx.seed * 19 + 2)
    quietish = ['7k/8/8/8/8/8/8/K7 w - - 0 1', '7k/8/8/8/8/8/8/K6N w - - 0 1', '8/8/8/8/8/5k2/5p2/5K2 b - - 0 1', 'k7/8/8/8/8/8/8/K6B b - - 0 1',
                '6k1/5ppp/8/8/8/8/8/R6K w - - 0 1', '8/8/8/3k4/8/3K4/8/8 b - - 0 1']
    depths = [1, 2, 3, 4, 5, 6, 7, 12, 39, 40, 41, 60, 1000, 2147483647]
    texts = []
    for fen in quietish:
        texts.append(f'pos {fen}\n' + ''.join(f'go depth {d}\n' for d in depths) + 'go depth 2 movetime 4000\ngo depth 3 wtime 100000 btime 100000\ngo depth 2 nodes 100000\n')
    # searchmoves naming the special moves (castling has a code of its own, promotions carry a piece): the restriction must survive
    # whatever representation the limits are stored in
    castle = 'r3k2r/pppq1ppp/2npbn2/2b1p3/2B1P3/2NPBN2/PPPQ1PPP/R3K2R w KQkq - 6 8'
    promo = '4k3/1P4P1/8/8/8/8/1p4p1/4K3 w - - 0 1'
    for fen, sms in [(castle, ['e1c1', 'e1g1', 'e1c1 a2a3']), (mirror_fen(castle), ['e8c8', 'e8g8', 'e8g8 h7h6']),
                     (promo, ['b7b8n', 'g7g8r', 'b7b8q g7g8b']), (mirror_fen(promo), ['b2b1n', 'g2g1r'])]:
        texts.append(f'pos {fen}\n' + ''.join(f'go depth {d} searchmoves {sm}\n' for sm in sms for d in (1, 3)))
    npos = 24 if ctx.tier == 'quick' else 300
    for fen in search_positions(ctx, npos, rng):
        ops = [f'pos {fen}']
        ops.append(f'go depth {rng.randrange(1, 4)}')
        ops.append(f'smgo {rng.randrange(1 << 30)} {rng.randrange(1, 4)}')
        ops.append(f'smgo {rng.randrange(1 << 30)} 2 poison {rng.randrange(1 << 30)} 60')
        ops.append(f'go depth {rng.randrange(1, 3)} movetime {rng.choice([1, 50, 4000])}')
        ops.append(rng.choice(['go movetime 30', 'go wtime 200 btime 200', 'go wtime 50 btime 50 winc 10 binc 10 movestogo 3', 'go nodes 2000']))
        # a deeper search first, then a restricted one: the table now holds moves outside the subset
        ops += [f'go depth {rng.randrange(3, 5)}', f'smgo {rng.randrange(1 << 30)} {rng.randrange(2, 4)}']
        # ... and restricted searches that complete NO iteration (node / time budget of one, stop at the first visits) right after
        # an unrestricted one: whatever the fallback answer is taken from, it is one of the searchmoves
        ops += [f'go depth 2', f'smgo {rng.randrange(1 << 30)} 6 nodes 1', f'smgo {rng.randrange(1 << 30)} 6 movetime 1',
                f'smgo {rng.randrange(1 << 30)} 5 stopvisit 1', f'go depth 3', f'smgo {rng.randrange(1 << 30)} 5 stopvisit {rng.randrange(2, 40)}',
                f'smgo {rng.randrange(1 << 30)} 6 wtime 1 btime 1']
        texts.append('\n'.join(ops) + '\n')
    runs = go_run(ctx, texts, timeout=900)
    # roots without a legal move (checkmated, stalemated): the iteration loop has nothing to search and must still end by itself
    nomove = ['R5k1/5ppp/8/8/8/8/8/6K1 b - - 0 1', 'rnb1kbnr/pppp1ppp/8/4p3/6Pq/5P2/PPPPP2P/RNBQKBNR w KQkq - 1 3', '7k/5Q2/6K1/8/8/8/8/8 b - - 0 1',
              '8/8/8/8/8/5k2/5p2/5K2 w - - 0 1']
    nomove += [mirror_fen(f) for f in nomove]
    runs += go_run(ctx, [f'pos {fen}\n' + ''.join(f'go depth {d}\n' for d in (1, 2, 4, 41, 1000)) + 'go depth 3 movetime 2000\n' for fen in nomove], timeout=150)
    ctx.count('no_legal_move_roots', len(nomove))
    ctx.cov['rule'] = (f'go depth d for d in {depths} on positions where deep iterations are instant; depth combined with movetime/clock/nodes; go depth d on checkmated and stalemated roots (nothing to search: the loop must still end); searchmoves naming castling and (under-)promotion moves; random searchmoves subsets (also right after a deeper '
                       'unrestricted search, with poisoned tables, and with budgets so small that no iteration completes); time/clock/node limits must return on their own within the timeout; output checked by the spec (consecutive depths, <= d, '
                       'bestmove in subset) and trace by the acceptor')
    judge(ctx, runs, 'search limits', c09_fail)
    ctx.count('deep_depth_runs', sum(1 for r in runs if any(f'depth {d}' in r['go'] for d in (39, 40, 41, 60, 1000, 2147483647))))
    ctx.count('searchmoves_runs', sum(1 for r in runs if 'searchmoves' in r['go']))
    hunt_if_needed(ctx, ok, 'search limits', lambda: None)
    uci_glue_extra('C09')(ctx)
    return V.finish(ctx, 'proof', thm('C09'),
                    'theorems over the iteration loop of the trace automaton (Props/C09.lean): iteration depths are 1..k consecutively, bestmove follows the last iteration, the root list is the '
                    'searchmoves list and BEST_SET only takes moves from it; C++ tie by trace acceptance + direct check of the printed info/bestmove lines', checker_cmd('C09'))


def c10_fail(r):
    e = r['end']
    if e and int(e.get('maxply', 0)) + 1 >= int(e.get('stackcap', 80)):
        return f"search stack index {int(e['maxply']) + 1} reaches the capacity {e['stackcap']} of StackInfo"
    if e and e.get('restored') != '1':
        return 'position not restored after the search'
    return None


def check_C10(ctx):
    import random
    ok = V.prepare(ctx, thm('C10'))
    ctx.trusted = TB_COMMON + ['AddressSanitizer + UndefinedBehaviorSanitizer (bounds, shift, overflow) instrument every run of every check; a sanitizer abort is a result']
    ctx.assumptions = ['memory safety of unmodelled code and uninitialised reads are covered only by the sanitizers on the explored sessions (MSan is not usable with this libstdc++)',
                       'quiescence below ply 40 is assumed to end before ply 79 (DESIGN §6 C10)']
    rng = random.Random(ctx.seed * 23 + 4)
    texts = []
    long_game = open(os.path.join(REGRESS, 'C10.scn')).read()
    texts.append(long_game + 'go depth 2\ngo depth 3 stopvisit 50\nnewgame\ngo depth 2\n')
    # searches started a few plies before, at and after the key-history capacity (the search itself makes moves past it)
    shuffle = [l for l in open(os.path.join(REGRESS, 'C03.scn')).read().splitlines()]
    main_line, depth_ = [], 0
    i = 0
    while i < len(shuffle):
        l = shuffle[i]
        if l.startswith('do ') and i + 1 < len(shuffle) and shuffle[i + 1] == 'undo':
            i += 2
            continue
        if l.startswith(('pos ', 'do ')):
            main_line.append(l)
        i += 1
    for nply in ((796, 801) if ctx.tier == 'quick' else (780, 790, 794, 796, 797, 798, 799, 800, 801, 805, 1196, 1199, 1201)):
        texts.append('\n'.join(main_line[:nply + 1]) + f'\ngo depth {4 if ctx.tier == "quick" else 5}\ngo depth 4 stopvisit 300\nstate\n')
    kk = '7k/8/8/8/8/8/8/K7 w - - 0 1'
    texts.append(f'pos {kk}\n' + ''.join(f'go depth {d}\n' for d in (39, 40, 41, 42, 60, 200, 1000, 2147483647)))
    texts.append('pos 8/8/4k3/p1p1p1p1/P1P1P1P1/8/4K3/8 w - - 0 1\ngo depth 40\ngo depth 41\n')
    texts.append('pos R6R/3Q4/1Q4Q1/4Q3/2Q4Q/Q4Q2/pp1Q4/kBNN1KB1 w - - 0 1\nmoves\ngo depth 1\ngo depth 2 stopvisit 30\nsmgo 5 1\n')
    texts.append('pos 7k/P7/8/NNN5/NNN5/NNNB4/8/K7 w - - 0 1\ndo a7a8n\nmoves\nstate\nundo\nmoves\ndo a7a8n\ngo depth 2\n')
    texts.append('pos 7k/P7/8/BBB5/BBB5/BBBN4/8/K7 w - - 0 1\ndo a7a8b\nmoves\nundo\npos 7k/P7/8/RRR5/RRR5/RRRN4/8/K7 w - - 0 1\ndo a7a8r\nmoves\nundo\n'
                 'pos 7k/P7/8/QQQ5/QQQ5/QQ1N4/8/K7 w - - 0 1\ndo a7a8q\nmoves\ngo depth 1\n')
    # clock-limited searches in games that are already very long when they are set up (full-move numbers far beyond the key-history
    # capacity): whatever the time manager or the search index by game ply must not run off a table
    for fm in (399, 400, 460, 1000, 4000):
        texts.append(f'pos r4rk1/pp3ppp/2n1b3/3p4/3P4/2PB1N2/P4PPP/R4RK1 w - - 3 {fm}\ngo wtime 3000 btime 3000 winc 100 binc 100\ngo wtime 500 btime 500 movestogo 2\n'
                     f'pos r4rk1/pp3ppp/2n1b3/3p4/3P4/2PB1N2/P4PPP/R4RK1 b - - 3 {fm}\ngo wtime 400 btime 400\n')
    # GUI-supplied horizons of unusual magnitude: movestogo at, just above and far above the engine's own default horizon, with and
    # without increments, early and late in the game
    for mtg in (49, 50, 51, 52, 64, 80, 120, 500, 5000):
        texts.append(f'pos rnbqkbnr/pppppppp/8/8/8/8/PPPPPPPP/RNBQKBNR w KQkq - 0 1\ngo wtime 900 btime 900 movestogo {mtg}\npos r4rk1/pp3ppp/2n1b3/3p4/3P4/2PB1N2/P4PPP/R4RK1 b - - 3 61\n'
                     f'go wtime 700 btime 700 winc 20 binc 20 movestogo {mtg}\n')
    # long forcing lines and ordinary sessions with ucinewgame cycles
    for fen in search_positions(ctx, 16 if ctx.tier == 'quick' else 200, rng):
        texts.append(f'pos {fen}\ngo depth {rng.randrange(2, 5)}\nnewgame\ngo depth 2\nplaybest\ngo depth 3 stopvisit {rng.randrange(1, 400)}\nplaybest\ngo nodes 3000\n')
    texts = [t if t.startswith('ztab') else 'ztab 5\n' + t for t in texts]
    runs = go_run(ctx, texts, timeout=1500)
    ctx.cov['rule'] = ('boundary sessions of every fixed-size buffer under ASan+UBSan: a 924-ply game then go (key history), depth limits 39..2^31-1 (per-iteration arrays), the 218-move position through '
                       'generate/san/go (move lists, san buffer, searchmoves), clock-limited searches at full-move numbers 399..4000 (anything indexed by game ply) and with movestogo 49..5000 (anything indexed by the horizon), one session of the engine binary under valgrind memcheck (uninitialised reads), promotions to a 10th knight/bishop/rook/queen (piece lists), ucinewgame cycles, stops; plus maxply+1 < StackInfo capacity '
                       'from the hooks; the crash-free state lines are also compared with the model')
    judge(ctx, runs, 'memory safety on boundary sessions', c10_fail)
    # state/moves lines of these sessions against the model (the piece-list boundary shows up as sync/gen differences)
    V.three_way(ctx, [t for t in texts if 'a7a8' in t or 'R6R' in t], lambda l, s: l if l.startswith(('fen=', 'moves ', 'gen ')) else None, 'boundary positions',
                spec_proj=lambda l, s: None)
    # uninitialised reads are invisible to ASan/UBSan: one session of the engine binary itself under valgrind memcheck
    try:
        vexe = vbuild.build_engine('vg')
        script = ('position startpos\ngo depth 3\nposition fen r5rk/5p1p/5R2/4B3/8/8/7P/7K w - - 0 1\ngo depth 4\nucinewgame\n'
                  'position fen 6k1/5ppp/5n2/3q4/3Q4/8/5PPP/4R1K1 w - - 0 1\ngo depth 3 searchmoves d4d5 e1e8\ngo movetime 200\n'
                  'position startpos moves e2e4 e7e5\ngo nodes 500\ngo wtime 1000 btime 1000 movestogo 5\n')
        import threading as _th
        pr = subprocess.Popen(['valgrind', '--error-exitcode=0', '--track-origins=no', '-q', vexe], stdin=subprocess.PIPE, stdout=subprocess.PIPE, stderr=subprocess.PIPE, text=True, errors='replace')
        outl = []

        def _rd():
            for l in pr.stdout:
                outl.append(l)
        th = _th.Thread(target=_rd, daemon=True); th.start()
        need = 0
        for line in script.splitlines():
            pr.stdin.write(line + '\n'); pr.stdin.flush()
            if line.startswith('go'):
                need += 1
                lim = time.time() + 240
                while time.time() < lim and sum(1 for l in outl if l.startswith('bestmove')) < need:
                    time.sleep(0.05)
        pr.stdin.write('quit\n'); pr.stdin.flush()
        try:
            pr.wait(timeout=60)
        except subprocess.TimeoutExpired:
            pr.kill()
        verr = pr.stderr.read()
        ctx.count('valgrind_go_commands', need)
        ctx.cov['evaluations'] += need
        bad = [l for l in verr.splitlines() if 'uninitialised' in l or 'Invalid read' in l or 'Invalid write' in l]
        if bad:
            i0 = verr.find(bad[0])
            V.report_violation(ctx, 'valgrind memcheck on the engine binary: ' + bad[0].split('==')[-1].strip(),
                               '# valgrind -q <engine binary built from this tree with -O1 -g>\n' + script + '# ' + verr[max(0, i0 - 100):i0 + 1800].replace('\n', '\n# ') + '\n', True,
                               ident='valgrind ' + bad[0][-80:])
    except FileNotFoundError:
        ctx.notes.append('valgrind not available: uninitialised reads not explored')
    except Exception as e:
        ctx.notes.append('valgrind session skipped: ' + str(e)[:200])
    hunt_if_needed(ctx, ok, 'memory safety', lambda: None)
    uci_glue_extra('C10')(ctx)
    return V.finish(ctx, 'proof', thm('C10'),
                    'PARTIAL by nature: proved in Lean are the index bounds of the modelled tables (Props/C10.lean: move-list length bound, MoveInfo field widths, history trimming keeps the counter below '
                    'MAX_PLIES, iteration depth below the per-iteration array capacity, pv/stack indices in an accepted trace); memory safety as such is explored with sanitizers on boundary sessions',
                    checker_cmd('C10'))


def replay(ctx, path):
    text = ''.join(l for l in open(path) if not l.startswith('# '))
    ctx.exe, _ = vbuild.build_harness('san')
    ctx.drv = vbuild.leandrv()
    rc, C, err = V.run_cpp(ctx.exe, text)
    rl, M, S, _ = V.run_lean(ctx.drv, text)
    for i, op in enumerate(text.splitlines()):
        print('op   :', op)
        print('cpp  :', C[i] if i < len(C) else '<none>')
        print('model:', M[i] if i < len(M) else '<none>')
        print('spec :', S[i] if i < len(S) else '<none>')
    if rc != 0:
        print(err[-3000:])
    return 0


CHECKS = {
    'C01': check_C01, 'C02': check_C02, 'C03': check_C03, 'C04': check_C04, 'C07': check_C07, 'C11': check_C11, 'C12': check_C12, 'C13': check_C13, 'C14': check_C14,
    'C05': check_C05, 'C06': check_C06, 'C08': check_C08, 'C09': check_C09, 'C10': check_C10, 'C15': check_C15, 'C16': check_C16, 'C17': check_C17, 'C18': check_C18, 'C19': check_C19, 'C20': check_C20,
}
