#!/usr/bin/env python3
"""print the markdown table of DESIGN §12.7 from seeded/*/meta.json (seed | what it breaks | detected by)"""
import json, os, sys
root = os.path.join(os.path.dirname(os.path.dirname(os.path.abspath(__file__))), 'seeded')
print('| seed | what it breaks | detected by |')
print('|------|----------------|-------------|')
for d in sorted(os.listdir(root)):
    m = os.path.join(root, d, 'meta.json')
    if not os.path.exists(m):
        continue
    j = json.load(open(m))
    w = ' '.join(str(j.get('what_it_breaks', '')).split())
    w = (w[:140] + '…') if len(w) > 140 else w
    det = ' '.join(str(j.get('detected_by', '')).split())
    print(f'| {d} | {w.replace("|", "/")} | {det.replace("|", "/")} |')
