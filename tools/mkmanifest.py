#!/usr/bin/env python3
"""Regenerates /verif/MANIFEST.json from the table below (one place to keep it current)."""
import json, os, subprocess
VERIF = os.path.dirname(os.path.dirname(os.path.abspath(__file__)))

P = {}


def prop(pid, category, text, note, technique, design_ref):
    P[pid] = dict(category=category, text=text, note=note, technique=technique, design_ref=design_ref)


WF = 'positions are Spec.wf (one-ply retro-legal, DESIGN §2.1) — a set PROVED closed under legal moves (C02_wf_invariant) and containing the initial position, hence every position of every legal game (C02_reachable_wf); '
TIE = ('tie to the code = (i) Gen/*.lean re-extracted from the build of the current tree on every run, (ii) sampled correspondence '
       'C++ (ASan+UBSan) / Lean model / Lean rules-spec on spec-generated games; trusted: Lean kernel, axioms propext/Classical.choice/Quot.sound, '
       'translator and drivers, g++/libstdc++ semantics of mirrored operations')

prop('C01', 'proof',
     'FULLY PROVED in Lean (Props/C01.lean): C01_movegen_exact : C01_Statement — for every Spec.wf position the generated list has no duplicate, every generated move decodes to a move that is legal under the rules, and every legal move is generated (C01_exact: code ∈ genMoves p ↔ ∃ m ∈ Spec.legalMoves (abs p), codeOf m = code; decode_codeOf; C01_no_duplicates). PERFT AGREES WITH THE RULES AT EVERY DEPTH (C01_perft: the model\'s perft over generated moves and do_move = the number of lines of legal moves, on every Spec.wf position; uses that the rules list no legal move twice, Lemmas/SpecNodup.lean, C02 for each step and the invariance of well-formedness). The proof of exactness goes by cases. NO EN-PASSANT SQUARE (C01_exact_noep): for every Spec.wf position with ep = none — in single or double check or not, with pinned pieces or not — code ∈ genMoves p ↔ ∃ m ∈ Spec.legalMoves (abs p), codeOf m = code: no illegal move, no legal move missing, all piece kinds, both directions (set-wise pawn groups vs the rules\' per-pawn list, knights via the C11 leaper sets, sliders via Spec.slide = bitboard ray walk, king, castling; pinned pieces move exactly along their pin line; in double check only the king moves; in single check the capture mask is the checker\'s square and the push mask LINES[k][c] minus its end points is the set of empty squares strictly between king and sliding checker, an unpinned piece arriving there leaves the king safe, any other ordinary move leaves the checker in place, a pinned piece has no legal move). WITH AN EN-PASSANT SQUARE: clearing it keeps the position well-formed and removes exactly the en-passant captures from the rules\' legal moves and from the generated list (reduction to the previous case), and an en-passant capture is generated iff it is legal (ep_exact): legality = own king not attacked with the capturer moved and the captured pawn removed; a slider sees the king over that occupancy in exactly four situations; "the double push was itself legal" (part of Spec.wf) excludes the line only the pushed pawn shields and the interposition on the en-passant square; attacked ⇔ another checker remains ∨ the capturer leaves its pin line ∨ capturer and captured pawn alone shielded the king on its rank; the generator\'s rank test = that rank exposure, its mask test = "the only checker is the pushed pawn", its pinned-pawn branch = capture along the pin diagonal out of check. THE PIN SCAN IS SOUND (C01_unpinned_legal). Also PROVED for every Spec.wf position (en-passant square or not): NO MOVE APPEARS TWICE (C01_no_duplicates: the generated list is duplicate-free — groups told apart by piece kind on the origin and pinned-ness, pawn groups by offset and promotion, en-passant by its empty target, pins on different rays name different squares via kernel-evaluated bit-scan tables) and every generated move is a castling code or the code of an own piece\'s move with promotion exactly on the end ranks (C01_move_shape); PROVED EXACT: the king moves (C01_king_moves_exact: the generator emits k->t iff that king step is legal '
     'under the rules; forbidden squares = attacked with the king x-rayed, C01_forbidden_squares), the in-check test (C01_in_check_test), and CASTLING (C01_castling_exact: each of the four castling tests '
     'holds iff the rules list that castling move, every listed castling move survives the legality filter, and the code is emitted, C01_castling_emitted; rests on "lifting an unattacked king uncovers nothing", '
     'Lemmas/KingLift.lean, and a changed-squares lemma for Spec.attacked, Lemmas/CastleSafe.lean). Nothing of the statement is left to testing; the model is tied to the code by the three-way differential '
     ' (C++ / model mirroring movegen.cpp / naive FIDE-rules spec) on the sorted legal move set and perft through do/undo; '
     'a broken proof or correspondence triggers a spec-vs-implementation hunt for a concrete position',
     WF + TIE, 'Lean 4 theorems over an executable model (generator exact on every well-formed position: C01_Statement proved) + spec-generated differential correspondence', '§12.4 C01')
prop('C02', 'proof',
     'REFINEMENT PROVED in Lean (Props/C02.lean: C02_full, C02_replay_legal, C02_game; the quantifier Spec.wf is an invariant of legal play: C02_wf_invariant, and every position of every legal game from the initial position is in it: C02_reachable_wf — so C02_game needs well-formedness of the FIRST position only): for every model position whose six FEN fields satisfy Spec.wf and EVERY move legal under the rules '
     '(Spec.legalMoves), for every Zobrist table, absPos(do_move(code of m)) = Spec.apply m on all six FEN fields, and the same for legal sequences of any length; the move-shape hypothesis is '
     'derived from wf + legality by analysing the rules\' own generator (Lemmas/LegalShape.lean). Tie: differential on all six FEN fields after every do/undo/null, consistency of the three '
     'redundant C++ placements at every step, and sessions over the real UCI command loop (position…moves / moves / printboard) judged by the rules spec',
     WF + 'ply counter in step with the side to move (true after every FEN load with full-move number >= 1); half-move clock < 65535 (uint16_t after fix a7a3d11); ' + TIE,
     'Lean 4 refinement proof (model doMove = rules apply, all wf positions x all legal moves) + differential correspondence + UCI-level sessions', '§12.4 C02')
prop('C03', 'proof',
     'PROVED in Lean (Props/C03.lean): undo_move(do_move(p,m)) = p on the WHOLE position record (board, side, rights, ep, clocks, five key components, key history) in every branch '
     '(quiet, capture, en passant, promotion with/without capture, both castlings), for every Zobrist table; null move; arbitrary nested make/unmake trees (C03_nested); C03_full states it '
     'for every Spec.wf position and every rules-legal move. Tie: differential on every observable after every undo in nested excursions, perft trees, and a 1240-ply game with '
     'excursions across the key-history capacity', WF + 'key history below its capacity (800 entries) for the record-equality theorems; ' + TIE,
     'Lean 4 proof (undo∘do = id, nested walks) + differential correspondence', '§12.4 C03')
prop('C04', 'proof',
     'Lean theorems, for EVERY Zobrist table: incremental key = key from scratch after do/undo/null, key is a function of '
     '(placement, side, rights, ep); differential with seeded tables on both sides',
     '64-bit collisions excluded by the property itself; ' + TIE, 'Lean 4 invariant proof over all tables + differential correspondence', '§6 C04')
prop('C07', 'proof',
     'PROVED in Lean (Props/C07.lean): C07_geometry — on every Spec.wf position and for either side the bitboard is_in_check (pawn/knight masks, magic slider lookups; uses C11 for all '
     'occupancies) equals the rules\' ray-walk definition of "king attacked", and the packed-count material test equals "bare kings or a single minor piece"; attack equivalence for any '
     'square; check-after-move via the C02 refinement; repetition/50-move predicates vs the key history (modulo 64-bit collisions). mate/stalemate = the rules\' "no legal move" ± check on every Spec.wf position (C07_mate_stalemate_exact, from C01_exact). '
     'Tie: differential on eight predicates after every op of spec-generated games steered towards repetitions, incl. a 1240-ply game',
     'no 64-bit key collision within a game; clock < 65535; ' + TIE,
     'Lean 4 proof (bitboard attack tests = rules-level attacks, via the C11 table theorem) + differential correspondence', '§12.4 C07')
prop('C15', 'proof',
     'FULLY PROVED in Lean (Props/C15.lean), over Spec.wf positions and rules-legal moves, no run-time side condition: move_is_capture = the rules\' capture and move_is_quiet = neither capture nor promotion '
     '(C15_capture_quiet_full); move_gives_check = the rules\' in-check test on the position after the move for EVERY legal move (C15_gives_check_full): ordinary moves and promotions '
     '(direct/discovered decomposition over rays with lifted pieces), en-passant captures (three squares change; the second discovered test is the slider test on the real occupancy and contains the first by '
     'ray monotonicity), castling (two steps of the same side, neither discovers a check: back-rank geometry as a kernel-evaluated table over enemy-king square x direction x square). The former side conditions '
     'are theorems (Lemmas/LegalFacts.lean): promotions only to N/B/R/Q, no pseudo-legal move lands on the enemy king, kings apart after a legal move. The differential of all three predicates on every legal '
     'move against the rules-spec (which plays the move) ties the model to the code',
     WF + TIE, 'Lean 4 theorems (capture, quiet, gives-check: all legal moves) + differential correspondence', '§12.4 C15')
prop('C16', 'proof',
     'FEN ROUND TRIP PROVED (Props/C16Full.lean, C16_fen_roundtrip): on every Spec.wf position whose ply counter is in step with the side to move, loading the printed FEN gives the same placement, side, rights, en-passant square, clocks, the key HashKey::init computes from them (= the position\'s own key on every position reached through FEN loads and moves, C16_fen_roundtrip_key with C04) and prints the identical FEN '
     '(Lemmas/FenRound.lean: the printer\'s rank loop of digit runs and piece letters against the reader\'s cursor, the eight ranks, token splitting, kernel tables for the rights and en-passant texts, Nat.toNat?_repr for the clocks). '
     'UCI ROUND TRIP ON EVERY LEGAL MOVE (C16_uci_roundtrip_wf, C16_uci_legal_rules): parse_uci(uci(m)) = m for every generated move of every Spec.wf position = the code of every move legal under the rules (C01), castling included. '
     'Packed Move / MoveInfo encodings decode to their fields (exhaustive decide over all field values); '
     'differential on uci text, codes, parse round trips and FEN->Position->FEN/keys on every visited position',
     'FEN full-move number >= 1; ' + TIE, 'Lean 4 theorems (FEN and UCI round trips over all well-formed positions, encodings by finite decide) + differential correspondence', '§12.4 C16')
prop('C17', 'proof',
     'ROUND TRIP AND UNAMBIGUITY PROVED in Lean over the rules\' own quantifier (C17_legal_rules: for every move legal under the rules in a Spec.wf position the SAN text of its code parses back to that code and no other legal move has the same text; C17_unambiguous), from the round trip UNCONDITIONALLY on well-formed positions (Props/C17.lean, C17_roundtrip_wf): for every Spec.wf position and EVERY generated move (the shape of the generated list the argument needs — no duplicates, castling moves are the two castling codes, '
     'other moves move an existing piece and promote to N/B/R/Q exactly when a pawn reaches an end rank — is itself a theorem, genShapeB_of_wf / C01_move_shape, and is still evaluated at every position of every run through the sync field), '
     'parse_san(san(m)) = m: the text of san as a character list, the one SAN regex on every text shape san can print (exhaustive kernel evaluation, Lemmas/SanShapes*.lean, incl. pawn texts with a rank), '
     'and the disambiguation argument (the printed file / file+rank leaves exactly one candidate whatever other moves share piece kind and target); castling texts with + and #. '
     'Tie: differential on SAN text and parse_san(san(m)) = m for every legal move, disambiguation lab with 3-4 like pieces',
     'std::regex ECMAScript semantics of the one pattern; ' + TIE,
     'Lean 4 proof of the round trip over the model + differential correspondence', '§12.4 C17')
prop('C18', 'proof',
     'PROVED in Lean (Props/C18.lean): the tables the build uses equal the committed Random64 re-ordered (decide +kernel), and C18_key: the engine\'s book key equals the published definition '
     'for every position incl. the en-passant clause (bit-level adjacency test = coordinate definition). Tie: differential on PolyglotBook::hash after every op, and sessions over the real '
     'UCI loop with a book written from the spec\'s keys (the book move must be found)', 'provenance of Random64 (Spec/Random64.lean); ' + TIE,
     'Lean 4 proof (table equality by kernel decide, full key equality) + differential correspondence + UCI book sessions', '§12.4 C18')

prop('C11', 'proof',
     'C11_slider proved in Lean for every square and ALL 2^64 occupancies: 128 per-square kernel-checked obligations (first-writer-wins table of the '
     'model, built with the magics/index bits re-extracted from the build, equals the ray walk on every subset of the mask) lifted by inductive lemmas '
     '(subset enumeration soundness, the walk ignores a ray\'s last square); leaper and LINES/FULL_LINES tables by exhaustive decide; pawn attacks '
     'proved for ARBITRARY pawn sets (C11_pawn: per-square table lifted through distributivity over union). Correspondence is EXHAUSTIVE over all table slots reachable through slider_attack<>.',
     'Lean kernel incl. decide +kernel evaluation (no native_decide); model of the C++ init algorithm is hand-written and compared exhaustively with the '
     'C++ tables on every run; ' + TIE, 'Lean 4 proof (kernel-evaluated finite obligations + induction) with exhaustive table correspondence', '§6 C11')
prop('C19', 'proof',
     'Lean theorems for every byte string / weight vector / residue: loaded book = decoded complete 16-byte records in order (C19_load), best = first '
     'maximal weight (C19_best), random policy picks move i iff the residue lies in its weight interval, never weight 0 (C19_random*), castling decode '
     '(C19_decode); correspondence on loaded maps and both policies with the mt19937 residue replayed',
     'iostream contract of the read loop; uniformity of dist(gen) % total up to modulo bias; ' + TIE,
     'Lean 4 theorems by induction over byte/entry lists + differential correspondence with replayed PRNG residues', '§6 C19')
prop('C20', 'proof',
     'Lean theorems C20_bounds / C20_monotone for all integer clock states, parametric in the floating-point steps whose IEEE-754 facts (monotone truncated '
     'scaling, trunc(0.7x) <= 7x/10) are explicit hypotheses; the model instantiated with IEEE doubles over the re-extracted importance() values is compared '
     'with calculateTime on a boundary grid + random points, and the property is evaluated directly on the C++ outputs',
     'three IEEE-754 facts as hypotheses (not axioms); ' + TIE, 'Lean 4 theorems parametric in float operations + exact differential on integer outputs', '§6 C20')

SEARCH_TIE = ('tie to the code = CHESSPP_VERIF hooks (add-only) emit the search events; every hooked run is fed to the Lean trace acceptor (Model/SearchTrace.lean) and its '
              'printed info/bestmove lines to the rules spec; harness runs under ASan+UBSan; ')
prop('C05', 'proof',
     'Lean theorems over the search-trace automaton (one guard per code site that lets a move into a move list, a pv or _best_move): an accepted trace ends in exactly one BESTMOVE naming a root move '
     '(C05_bestmove) and every reported pv is a line of generated moves from the root (C05_pv_legal, proved by the invariant PVInv: a node\'s pv slot, once cleared by that visit, holds a legal line from the node\'s position). Tie: trace acceptance of real searches under adversarial schedules (stop after exactly k node visits, at every schedule point) and adversarially '
     'poisoned transposition tables, searches from inside games, tiny/negative clocks, searchmoves subsets; the printed bestmove/pv are checked against the rules spec; a rejected trace triggers a hunt',
     SEARCH_TIE + 'positions with >= 1 legal move; ' + TIE, 'Lean 4 theorems over a trace-acceptor automaton + trace acceptance of instrumented searches', '§6 C05')
prop('C06', 'proof',
     'PARTIAL by nature: Lean theorems over a two-thread handshake model (stop never lost, exactly one bestmove within a bounded number of search-thread steps, isready answered, no racing step pair when the '
     'flag is atomic). Tie: stop() delivered at exactly the k-th node visit and at every schedule point in-process (trace must show no node expanded afterwards), the REAL two-thread UCI front end driven '
     'through pipes with the search thread parked at each schedule point, and the same sessions under ThreadSanitizer (supporting evidence only)',
     SEARCH_TIE + 'seq_cst atomics, OS fairness; wall-clock promptness is measured (< 2 s), not proved; ' + TIE,
     'Lean 4 theorems over a two-thread transition system + schedule-point enumeration on the real code', '§6 C06')
prop('C08', 'proof',
     'PARTIAL by nature: the global claim is not a theorem of this pruning search. Proved in Lean: score algebra (mate range, per-ply adjustment, plies->moves printing) and that no value beyond VALUE_MATE '
     'leaves an accepted trace. Explored: every final "score mate y" (|y| <= 3) of searches on solver-generated mate-in-1/2 positions, warm-table follow-ups along the engine\'s own line, corpus and pawn '
     'endings is checked by the spec\'s exhaustive mate solver; mate-in-one must be played',
     SEARCH_TIE + 'solver node budget (verdict unknown is not a failure); ' + TIE, 'Lean 4 theorems (score algebra, trace bound) + exhaustive mate-solver oracle on instrumented searches', '§6 C08')
prop('C09', 'proof',
     'Lean theorems over the iteration loop of the trace automaton: depths 1..k consecutive, bestmove after the last iteration, BEST_SET only from the root list (= searchmoves). Tie: trace acceptance + spec '
     'check of the printed depth sequence and bestmove for depth values 1..2^31-1, depth combined with time/node limits, random searchmoves subsets incl. after deeper searches and poisoned tables; '
     'time/clock/node-limited searches must return within the timeout',
     SEARCH_TIE + 'termination of the aspiration re-search loop is observed, not proved; ' + TIE, 'Lean 4 theorems over the iteration automaton + trace acceptance', '§6 C09')
prop('C10', 'proof',
     'PARTIAL by nature: memory safety is not a theorem about a functional model. Proved in Lean: index bounds of the modelled fixed-size tables. Explored under ASan+UBSan: boundary sessions of every '
     'buffer (924-ply game, depth limits up to 2^31-1, the 218-move position through generate/san/go, promotions to a 10th piece of a kind, ucinewgame cycles, go in terminal positions), stack index '
     'from the hooks, state lines compared with the model',
     'sanitizers see only the explored sessions; uninitialised reads only where UBSan/ASan can see them (no MSan); ' + TIE,
     'Lean 4 bound theorems + sanitizer runs on boundary sessions', '§6 C10')

prop('C12', 'proof',
     'PROVED in the Lean kernel (Props/C12.lean: C12_kpk, C12_mirror): for every legal KPK position — all 8 files, both colours, both sides to move — the engine\'s answer, computed from the table the CURRENT build '
     'produced (re-extracted on every run) through normalize/index/bit, is "win" exactly when the pawn\'s side can force a win under the rules (least fixpoint Wins of Spec/KPK.lean). Method: certificate = table + '
     'committed rank data; two local conditions per position, evaluated by the kernel at all 2*64*48*64 tuples in 96 chunks (decide +kernel, no native_decide, no compiled code); soundness by induction on the rank, '
     'completeness by induction on the derivation of Wins. Tie: EXHAUSTIVE correspondence over all 662,704 legal positions: real evaluation path vs model lookup vs an independent retrograde solver',
     '"safe promotion (Q or R, not capturable, not stalemating) is a win" is taken from chess theory (inside Spec.KPK.promotionWins); ' + TIE,
     'Lean 4 kernel-checked certificate (96 x 4096 positions) + exhaustive enumeration against an independent solver', '§12.4 C12')

prop('C13', 'proof',
     'the evaluator (score.cpp + endgame.cpp, ~600 lines) transcribed into Lean with its explicit per-colour choices; THE GENERAL (NON-ENDGAME) BRANCH OF THE EVALUATION IS PROVED COLOUR-SYMMETRIC ON EVERY Spec.wf POSITION (Props/C13General.lean, C13_general_branch: evalWith of the colour-mirrored position = evalWith of the position — pawn score, score_pieces_for_side for both colours with every per-piece term, the king terms, the setup scratch state incl. outposts and king blockers, tapering and side to move; C13_no_endgame: hence PositionScorer::score on every Spec.wf position that no specialised endgame claims — the mirror is then claimed by none either, C13_endgame_dispatch_mirror: egApplies for strong side s on the position = egApplies for the other side on the mirror, all 17 classes; through C11 for the slider lookups and kernel tables for every constant mask). THE KPK CLASS IS PROVED TOO (C13_kpk: on every Spec.wf position that KPK claims, for either strong side, the score of the mirror equals the score — the single pawn square, the bitbase normalisation, the value and the dispatch; this is the class of the repaired double-normalisation defect). AND SIX MORE CLASSES (C13_simple_endgame: KRNKR, KRBKR, KQKR, KNNK, KRKB, KXK when the class is the first to claim the position and claims one strong side only — decidable facts about the position; generic dispatch lemma endgameScore_class_mirror). AND FOUR MORE (C13_single_piece_endgame: KRKN, KNBK, KQKP, KRKP — kings plus the square of a piece that occurs once, read off the material signature). AND TWO MORE (C13_pair_endgame: KNNKP, KmmKm — a pair of like pieces in either scan order). OPEN: the values of the remaining 4 specialised endgame evaluators (KPsK, KBPsK, KBPsKB, KQKRPs: most-advanced-pawn scans over several files) (and that at most one strong side is claimed per class), decided on the implementation by the direct mirror test. Further mirror-law theorems in Props/C13.lean and Props/C13Mirror.lean (THE PAWN EVALUATION IS PROVED COLOUR-SYMMETRIC on every Spec.wf position — C13_pawn_score_mirror: score_pawns_for_side of either colour on the mirrored board equals that of the other colour on the board, so the cached pawn score changes sign; the term of one pawn reads ten features of the two pawn bitboards against constant masks, and the masks of (colour, square) and (other colour, flipped square) are flips of each other for all 2 x 48 pairs, kernel-evaluated — and so is score_king_safety incl. the castling-rights branch, C13_king_safety_mirror; the mirrored board is a permutation of the recoloured board, so piece counts, the material signature, the enough-material guard and the game-phase weight are mirror-invariant on every Spec.wf position: C13_guard_phase_wf; see DESIGN §12.4 C13 for the part proved); '
     'correspondence: model vs C++ on every evaluation of corpus/lab/game positions and random placements of every specialised endgame class, and the symmetry property evaluated directly on the C++ '
     'for every position and its mirror', 'Spec.wf positions with sufficient material; evaluation constants of value.h and the endgame.cpp tables are regenerated from the build on every run (Gen/EvalConsts.lean); ' + TIE,
     'Lean 4 theorems over a transcribed evaluator + direct mirror test on the implementation', '§6 C13')
prop('C14', 'proof',
     'BOTH HALVES PROVED in Lean (Props/C14.lean). C14_cache_transparent: for every sequence of evaluate/clear operations on the modelled pawn-key HashMap (slot = key mod 2^18, probe/insert/clear as in hashmap.h) '
     'the evaluator returns the pure value, under pawn-key injectivity. C14_bounded: for EVERY Spec.wf position (up to 8 pawns, 10 knights/bishops/rooks, 9 queens per side) the evaluation is not VALUE_NONE and '
     '|eval| < VALUE_MATE - MAX_DEPTH — every term of score.cpp is a value.h constant times a population count (<= 64), a king distance (<= 8) or a bounded table entry, summed over the piece counts and tapered; '
     'each of the 17 specialised endgames incl. the min(v, VALUE_MATE-1) clamps. The evaluation constants are REGENERATED from the build on every run (Gen/EvalConsts.lean: value.h objects via the harness dump, '
     'endgame.cpp tables from the source text), so a retuned constant moves the model with the code and the numeric side condition C14_constants is re-evaluated by the kernel. '
     'Correspondence: warm (session) vs fresh evaluators on the C++ itself in random interleavings with clears, pawnless positions after a clear, structures searched to collide in chosen cache slots, '
     'sibling positions, extreme material; model vs C++ on every value',
     'no 64-bit pawn-key collision within a session; inline literals of score.cpp (e.g. 10 * popcount(support)) are hand-copied into the model and covered by the correspondence; ' + TIE,
     'Lean 4 proofs over the evaluator model (cache invariant + interval bounds) + warm-vs-fresh differential on the implementation', '§12.4 C14')

PENDING = {
    'C05': 'search trace acceptor not built yet (in progress, DESIGN §6 C05)',
    'C06': 'handshake model and schedule hooks not built yet (in progress, DESIGN §6 C06)',
    'C08': 'mate oracle and trace checks not built yet (in progress, DESIGN §6 C08)',
    'C09': 'iteration-loop model not built yet (in progress, DESIGN §6 C09)',
    'C10': 'bound theorems and boundary sessions not built yet (in progress, DESIGN §6 C10)',
    'C11': 'table theorems not built yet (in progress, DESIGN §6 C11)',
    'C12': 'KPK certificate not built yet (in progress, DESIGN §6 C12)',
    'C13': 'evaluator model not built yet (in progress, DESIGN §6 C13)',
    'C14': 'evaluator cache model not built yet (in progress, DESIGN §6 C14)',
    'C19': 'book reader model not wired yet (in progress, DESIGN §6 C19)',
    'C20': 'time manager model not built yet (in progress, DESIGN §6 C20)',
}


def main():
    hook_commits = []
    try:
        out = subprocess.run(['git', '-C', '/repo', 'log', '--format=%h %s'], capture_output=True, text=True).stdout
        hook_commits = [l.split()[0] for l in out.splitlines() if l.split(' ', 1)[1].startswith('verif:')]
    except Exception:
        pass
    checks = []
    for pid in sorted(P):
        d = P[pid]
        checks.append({
            'property_id': pid,
            'quick_cmd': f'python3 tools/vcheck.py {pid} --tier quick',
            'thorough_cmd': f'python3 tools/vcheck.py {pid} --tier thorough',
            'evidence_file': f'/verif/evidence/{pid}.json',
            'replay_cmd_template': f'python3 tools/vcheck.py {pid} --replay {{path}}',
            'engine': 'lean4+correspondence',
            'level_claimed': {'category': d['category'], 'text': d['text'], 'design_ref': d['design_ref']},
            'level_note': d['note'],
            'technique': d['technique'],
        })
    m = {
        'version': 1,
        'setup_cmd': 'python3 tools/vsetup.py',
        'hooks': {
            'guard': 'CHESSPP_VERIF',
            'enable': 'tools/vbuild.py compiles /repo/engine/*.cpp (minus main.cpp) with -DCHESSPP_VERIF -O1 -g -fsanitize=address,undefined and links harness/cppdrv.cpp',
            'baseline_off_cmd': 'cmake --build /repo/_build && ctest --test-dir /repo/_build -j8',
            'source_commits': hook_commits,
            'add_only': True,
        },
        'engines': [
            {'name': 'lean4+correspondence', 'path': '/verif/lean',
             'serves_properties': sorted(P),
             'kind_free_text': 'Lean 4.33 library ChessVerif (Model/ mirrors the C++, Spec/ is the rules, Props/ holds the theorems) + compiled driver '
                               'leandrv; C++ harness harness/cppdrv.cpp linked against the engine objects built from /repo; orchestrated by tools/vcheck.py'}],
        'checks': checks,
        'notes': 'Every check rebuilds the harness from /repo\'s working tree, regenerates Gen/*.lean, re-runs lake build for the property\'s theorem '
                 'modules, audits axioms, then runs the correspondence.  Seeds: VERIF_SEED.  Known/fixed findings: known_findings.txt.',
        'not_applicable': [{'property_id': k, 'reason': v} for k, v in sorted(PENDING.items()) if k not in P],
    }
    json.dump(m, open(os.path.join(VERIF, 'MANIFEST.json'), 'w'), indent=1)
    print('MANIFEST.json:', len(checks), 'checks,', len(m['not_applicable']), 'not_applicable')


if __name__ == '__main__':
    main()
