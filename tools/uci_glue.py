"""UCI glue check: the engine's REAL command loop (`cppdrv uci` = Uci::loop() in-process, ASan+UBSan) is driven through
pipes with scripted sessions — `position … moves …`, `moves`, `printboard`, `hash`, `perft`, `go depth/searchmoves/clock` —
and what it prints is judged against the rules specification (leandrv S lines).  This covers the code between the
protocol and the functions the in-process harness calls directly: Uci::position_command / moves_command / go_command
(limit parsing, searchmoves parsing), ucinewgame, the epoch bump, printboard/hash/perft output.

A session is a list of commands; after every command an `isready` barrier is sent, `go` waits for `bestmove`."""
import os, subprocess, threading, time, re, random
import vcheck as V

GO_TIMEOUT = 60.0


def run_script(exe, cmds, env_extra=None):
    env = dict(os.environ)
    env['ASAN_OPTIONS'] = 'detect_leaks=0'
    if env_extra:
        env.update(env_extra)
    p = subprocess.Popen([exe, 'uci'], stdin=subprocess.PIPE, stdout=subprocess.PIPE, stderr=subprocess.PIPE, text=True, errors='replace', env=env, bufsize=1)
    out, errs = [], []
    cv = threading.Condition()

    def rd():
        for l in p.stdout:
            with cv:
                out.append((time.time(), l.rstrip('\n')))
                cv.notify_all()

    def rde():
        for l in p.stderr:
            errs.append(l.rstrip('\n'))
    th = threading.Thread(target=rd, daemon=True); th.start()
    the = threading.Thread(target=rde, daemon=True); the.start()

    def wait_for(pred, start, timeout):
        lim = time.time() + timeout
        with cv:
            while True:
                for i in range(start, len(out)):
                    if pred(out[i][1]):
                        return i
                rest = lim - time.time()
                if rest <= 0 or p.poll() is not None and not th.is_alive():
                    return None
                cv.wait(min(rest, 0.2))

    res = []
    dead = None
    for c in cmds:
        start = len(out)
        t0 = time.time()
        try:
            p.stdin.write(c + '\n'); p.stdin.flush()
        except Exception as e:
            dead = f'engine process gone before `{c}`: {e}'
            break
        elapsed = None
        if c.startswith('go'):
            i = wait_for(lambda l: l.startswith('bestmove'), start, GO_TIMEOUT)
            if i is None:
                res.append((c, [l for _, l in out[start:]], None))
                dead = f'no bestmove within {GO_TIMEOUT:.0f} s after `{c}`'
                break
            elapsed = out[i][0] - t0
        try:
            if c.strip() != 'isready':       # a scripted `isready` is its own synchronisation point (one readyok per isready)
                p.stdin.write('isready\n'); p.stdin.flush()
        except Exception as e:
            dead = f'engine process gone after `{c}`: {e}'
            break
        j = wait_for(lambda l: l == 'readyok', start, 30.0)
        if j is None:
            res.append((c, [l for _, l in out[start:]], elapsed))
            dead = f'no readyok after `{c}`'
            break
        res.append((c, [l for _, l in out[start:j]], elapsed))
    try:
        p.kill()    # no `quit`: teardown is not under test (DESIGN §12.6)
    except Exception:
        pass
    try:
        p.wait(timeout=5)
    except Exception:
        pass
    th.join(timeout=1); the.join(timeout=1)
    return res, dead, '\n'.join(errs)


def fen_of(lines):
    for l in lines:
        m = re.search(r'Fen:\s*(.*\S)', l)
        if m:
            return m.group(1).strip().strip('"')
    return None


def hex_of(lines):
    for l in lines:
        m = re.search(r'Hex:\s*([0-9a-fA-F]+)', l)
        if m:
            return m.group(1).lower()
    return None


def perft_of(lines):
    mv, total = {}, None
    for l in lines:
        m = re.match(r'^([a-h][1-8][a-h][1-8][nbrq]?): (\d+)$', l.strip())
        if m:
            mv[m.group(1)] = int(m.group(2))
        m = re.match(r'^Number of nodes: (\d+)', l.strip())
        if m:
            total = int(m.group(1))
    return mv, total


def spec_line(drv, fen, moves):
    """positions along the game from the rules side: list of (fen, sorted legal uci moves) for k = 0..len(moves)"""
    text = f'pos {fen}\ngen\n' + ''.join(f'do {m}\ngen\n' for m in moves)
    rc, M, S, err = V.run_lean(drv, text)
    fens, gens = [], []
    for l in S:
        if l.startswith('fen='):
            fens.append(V.parse_state(l)['fen'])
        elif l.startswith('gen '):
            gens.append(sorted(r['uci'] for r in V.parse_moves(l)[1]))
    return list(zip(fens, gens))


def games_from(ctx, n, maxplies, seed_off):
    """(fen, [uci moves]) pairs from the spec-side game generator"""
    text = V.lean_gen(ctx.drv, ['play', ctx.seed * 1000 + seed_off, n, maxplies, 0, os.path.join(V.VERIF, 'corpus', 'fens.txt')])
    head, games = V.split_games(text)
    res = []
    for g in games:
        fen, mv = None, []
        depth = 0
        for l in g:
            if l.startswith('pos '):
                fen = l[4:].strip()
            elif l.startswith('do ') and depth == 0:
                mv.append(l[3:].strip())
            elif l.startswith('undo') or l.startswith('null') or l.startswith('unnull'):
                break   # keep the straight-line prefix only
        if fen and mv:
            res.append((fen, mv))
    return res


def judge_game(ctx, exe, drv, fen, moves, rng, tier):
    """one session; returns list of (property id, what, replay text)"""
    line = spec_line(drv, fen, moves)
    if len(line) != len(moves) + 1:
        return []
    k = len(moves)
    half = k // 2
    fk, legal_k = line[k]
    fh, legal_h = line[half]
    problems = []
    sm = rng.sample(legal_k, min(len(legal_k), 2)) if legal_k else []
    stm_black = fk.split()[1] == 'b'
    # the side to move gets a short clock, the other side a long one: a swapped parse overspends
    w, b = (60000, 350) if stm_black else (350, 60000)
    parts = [f'wtime {w}', f'btime {b}', 'winc 0', 'binc 0']
    rng.shuffle(parts)
    clock = 'go ' + rng.choice(['', 'ponder ']) + ' '.join(parts) + rng.choice(['', ' movestogo 30', ' movestogo 1'])
    cmds = ['ucinewgame',
            f'position fen {fen} moves {" ".join(moves)}', 'printboard', 'hash',
            f'position fen {fk}', 'printboard', 'hash', 'perft 1',
            f'position fen {fen} moves {" ".join(moves[:half])}', f'moves {" ".join(moves[half:])}', 'printboard', 'hash',
            'go depth 3']
    if sm:
        cmds += [f'go depth 3 searchmoves {" ".join(sm)}', f'position fen {fk}', f'go depth 2 searchmoves {sm[-1]}']
    cmds += [f'position fen {fen} moves {" ".join(moves[:half])}', 'printboard', 'go depth 2', 'ucinewgame',
             f'position fen {fk}', clock]
    res, dead, stderr = run_script(exe, cmds)
    script = '\n'.join(cmds) + '\n'
    hdr = f'# UCI session (run: printf on stdin of `cppdrv uci` or of the chessplusplus binary)\n'
    if 'ERROR: AddressSanitizer' in stderr or 'runtime error' in stderr:
        problems.append(('C10', 'sanitizer report in a UCI session', hdr + script + '# stderr: ' + stderr[-600:].replace('\n', ' | ') + '\n'))
    if dead:
        problems.append(('C05', 'UCI session: ' + dead, hdr + script))
        return problems
    by = {}
    for i, (c, lines, el) in enumerate(res):
        by.setdefault(i, (c, lines, el))
    R = [r for r in res]

    def at(i):
        return R[i] if i < len(R) else ('', [], None)
    # indices follow cmds
    f_replay, h_replay = fen_of(at(2)[1]), hex_of(at(3)[1])
    f_direct, h_direct = fen_of(at(5)[1]), hex_of(at(6)[1])
    pm, ptotal = perft_of(at(7)[1])
    f_moves, h_moves = fen_of(at(10)[1]), hex_of(at(11)[1])
    if f_replay != fk:
        problems.append(('C02', f'`position fen … moves …` leaves FEN `{f_replay}`, the rules give `{fk}`', hdr + script))
    if f_moves != fk:
        problems.append(('C02', f'`position … moves …` + `moves …` leaves FEN `{f_moves}`, the rules give `{fk}`', hdr + script))
    if f_direct != fk:
        problems.append(('C16', f'`position fen X` + printboard prints `{f_direct}` for X = `{fk}`', hdr + script))
    if h_replay is None or h_replay != h_direct or h_moves != h_direct:
        problems.append(('C04', f'key after replay {h_replay} / after `moves` {h_moves} differs from the key of the same position set up directly {h_direct}', hdr + script))
    if sorted(pm) != legal_k or ptotal != len(legal_k):
        problems.append(('C01', f'`perft 1` lists {sorted(pm)} (total {ptotal}); the legal moves are {legal_k}', hdr + script))
    # searches
    def best_of(lines):
        b = [l.split()[1] for l in lines if l.startswith('bestmove') and len(l.split()) > 1]
        return b

    def depths_of(lines):
        d = []
        for l in lines:
            t = l.split()
            if t[:1] == ['info'] and 'depth' in t and 'pv' in t:
                d.append(int(t[t.index('depth') + 1]))
        return d
    idx = 12
    c, lines, el = at(idx)
    b = best_of(lines)
    if legal_k and (len(b) != 1 or b[0] not in legal_k):
        problems.append(('C05', f'`{c}` answered {b}; legal moves are {legal_k}', hdr + script))
    if any(x > 3 for x in depths_of(lines)):
        problems.append(('C09', f'`{c}` reported depths {depths_of(lines)}', hdr + script))
    if sm:
        c, lines, el = at(13)
        b = best_of(lines)
        if len(b) != 1 or b[0] not in sm:
            problems.append(('C09', f'`{c}` answered {b}: not one of the searchmoves', hdr + script))
        if any(x > 3 for x in depths_of(lines)):
            problems.append(('C09', f'`{c}` reported depths {depths_of(lines)}', hdr + script))
        c, lines, el = at(15)
        b = best_of(lines)
        if len(b) != 1 or b[0] != sm[-1]:
            problems.append(('C09', f'`{c}` answered {b}: not the single searchmove', hdr + script))
        if any(x > 2 for x in depths_of(lines)):
            problems.append(('C09', f'`{c}` reported depths {depths_of(lines)}', hdr + script))
        base = 16
    else:
        base = 13
    f_half = fen_of(at(base + 1)[1])
    if f_half != fh:
        problems.append(('C02', f'second `position … moves …` of the session leaves FEN `{f_half}`, the rules give `{fh}`', hdr + script))
    c, lines, el = at(base + 2)
    b = best_of(lines)
    if legal_h and (len(b) != 1 or b[0] not in legal_h):
        problems.append(('C05', f'`{c}` (after re-sending an earlier position) answered {b}; legal moves are {legal_h}', hdr + script))
    c, lines, el = at(base + 5)
    b = best_of(lines)
    if legal_k:
        if len(b) != 1 or b[0] not in legal_k:
            problems.append(('C05', f'`{c}` answered {b}; legal moves are {legal_k}', hdr + script))
        # 350 ms on the mover's clock; generous slack for the sanitizer build and a loaded machine
        if el is not None and el > 0.35 + 1.0:
            problems.append(('C20', f'`{c}`: bestmove after {el:.2f} s with 350 ms on the clock of the side to move', hdr + script))
    return problems


def judge_walk(ctx, exe, drv, fen, moves, rng, use_startpos=False, initial=False):
    """a random walk over the state-changing commands of the front end with the rules as oracle: whatever mixture of
    `position` (fresh, shorter, textually extending the previous one), `moves`, `position fen <later position>`,
    `ucinewgame` and `go` is sent, `printboard` must show the oracle position, `hash` must depend on the position only
    and `go` must answer a legal move."""
    line = spec_line(drv, fen, moves)
    n = len(moves)
    if len(line) != n + 1 or n < 2:
        return []
    base = 'startpos' if use_startpos else f'fen {fen}'

    def P(j):
        return f'position {base}' + (f' moves {" ".join(moves[:j])}' if j else '')
    cmds, checks = [], []      # checks: (index of command, kind, oracle index)
    o = None
    lastP = None
    steps = 0
    if initial and use_startpos:
        # no `position` command at all: the state the process starts with is the initial position (uci.cpp: loop())
        o = 0
        cmds.append('printboard'); checks.append((0, 'fen', 0))
        cmds.append('hash'); checks.append((1, 'hash', 0))
    while steps < 14:
        steps += 1
        kind = rng.choice(['P', 'PX', 'PX', 'M', 'M', 'PF', 'N', 'G'])
        if o is None or kind == 'N':
            if o is not None:
                cmds.append('ucinewgame')
            j = rng.randrange(0, n + 1)
            cmds.append(P(j)); o = j; lastP = j
        elif kind == 'P':
            j = rng.randrange(0, n + 1)
            cmds.append(P(j)); o = j; lastP = j
        elif kind == 'PX':
            if lastP is None or lastP >= n:
                continue
            j = rng.randrange(lastP + 1, n + 1)
            cmds.append(P(j)); o = j; lastP = j
        elif kind == 'M':
            if o >= n:
                continue
            j = rng.randrange(o + 1, min(n, o + 3) + 1)
            cmds.append('moves ' + ' '.join(moves[o:j])); o = j
        elif kind == 'PF':
            j = rng.randrange(0, n + 1)
            cmds.append(f'position fen {line[j][0]}'); o = j; lastP = None
        elif kind == 'G':
            cmds.append(f'go depth {rng.choice([1, 2])}')
            checks.append((len(cmds) - 1, 'go', o))
            continue
        # what a GUI sends in between without meaning to change anything: options the engine does not have (or has), `isready`, `uci`,
        # `ponderhit`, a stray `stop`, an unknown command — none of them may change the position or block a later answer
        if rng.random() < 0.35:
            cmds.append(rng.choice(['setoption name Hash value 64', 'setoption name Threads value 1', 'setoption name Ponder value false', 'setoption name NoSuchOption',
                                    'setoption name Polyglot Sample value best', 'setoption name Polyglot Sample value random', 'isready', 'uci', 'ponderhit', 'stop',
                                    'xyzzy 1 2 3', 'setoption', 'setoption name']))
        cmds.append('printboard'); checks.append((len(cmds) - 1, 'fen', o))
        if rng.random() < 0.5:
            cmds.append('hash'); checks.append((len(cmds) - 1, 'hash', o))
    res, dead, stderr = run_script(exe, cmds)
    script = '\n'.join(cmds) + '\n'
    hdr = '# UCI session (random walk over position / moves / ucinewgame / go; feed to `cppdrv uci` or the chessplusplus binary)\n'
    probs = []
    if 'ERROR: AddressSanitizer' in stderr or 'runtime error' in stderr:
        probs.append(('C10', 'sanitizer report in a UCI session', hdr + script + '# stderr: ' + stderr[-600:].replace('\n', ' | ') + '\n'))
    if dead:
        probs.append(('C05', 'UCI session: ' + dead, hdr + script))
        probs.append(('C10', 'UCI session: ' + dead, hdr + script))
        return probs
    seen_hash = {}
    for i, kind, j in checks:
        c, lines, el = res[i] if i < len(res) else ('', [], None)
        prev = cmds[i - 1] if i else ''
        if kind == 'fen':
            f = fen_of(lines)
            if f != line[j][0]:
                why = f'after `{prev}` (command #{i - 1}) the board is `{f}`; the rules give `{line[j][0]}`'
                probs.append(('C02', why, hdr + script))
                probs.append(('C16', why, hdr + script))
                break
        elif kind == 'hash':
            h = hex_of(lines)
            if j in seen_hash and seen_hash[j] != h:
                probs.append(('C04', f'the same position has key {seen_hash[j]} on one path and {h} after `{cmds[i - 2]}`', hdr + script))
                break
            seen_hash[j] = h
        elif kind == 'go':
            b = [l.split()[1] for l in lines if l.startswith('bestmove') and len(l.split()) > 1]
            legal = line[j][1]
            if legal and (len(b) != 1 or b[0] not in legal):
                probs.append(('C05', f'`{c}` (command #{i}) answered {b}; the legal moves there are {legal}', hdr + script))
                break
    return probs


def run(ctx, pid, ngames, maxplies=24):
    """run the sessions, report the problems that belong to property `pid`; returns number of sessions"""
    from concurrent.futures import ThreadPoolExecutor
    rng = random.Random(ctx.seed * 131 + 17)
    games = games_from(ctx, ngames, maxplies, 4242)
    # fixed sessions that exercise startpos and special moves through the text path
    games = games[:ngames]
    fixed = [('rnbqkbnr/pppppppp/8/8/8/8/PPPPPPPP/RNBQKBNR w KQkq - 0 1', ['e2e4', 'e7e5', 'g1f3', 'b8c6', 'f1c4', 'g8f6', 'e1g1', 'f8c5']),
             ('r3k2r/8/8/3pP3/8/8/8/R3K2R w KQkq d6 0 1', ['e5d6', 'e8c8', 'd6d7', 'c8b8', 'd7d8q']),
             ('4k3/P7/8/8/8/8/7p/4K3 w - - 0 1', ['a7a8n', 'h2h1r', 'e1e2']),
             # a game that is already long when it is set up: the full-move number puts the ply count at the capacity of the key history
             ('8/8/8/4k3/8/8/4K3/7R w - - 10 400', ['h1h5', 'e5e6', 'h5h1', 'e6e5']),
             ('8/8/8/4k3/8/8/4K3/7R b - - 10 399', ['e5e6', 'h1h5', 'e6e7', 'h5h1', 'e7e6']),
             # a promotion that captures a rook on its home square takes the castling right with it
             ('r3k2r/1P4P1/8/8/8/8/8/4K3 w kq - 0 1', ['b7a8q', 'e8e7', 'g7h8n']),
             ('4k3/8/8/8/8/8/1p4p1/R3K2R b KQ - 0 1', ['g2h1r', 'e1e2', 'b2a1b']),
             # a move text that looks like castling (e1g1, e1c1, e8g8, e8c8) made later in the list by a rook or queen, the king having
             # left its home square earlier in the same list: each token means what it means in the position reached so far
             ('rnbqkbnr/pppppppp/8/8/8/8/PPPPPPPP/RNBQKBNR w KQkq - 0 1',
              ['e2e4', 'e7e5', 'g1f3', 'b8c6', 'f1c4', 'f8c5', 'e1g1', 'g8f6', 'f1e1', 'e8g8', 'g1h1', 'f8e8', 'e1g1', 'g8h8', 'd2d3', 'e8g8']),
             ('r3k2r/pppq1ppp/2npbn2/2b1p3/2B1P3/2NPBN2/PPPQ1PPP/R3K2R w KQkq - 0 1',
              ['e1c1', 'e8c8', 'c1b1', 'c8b8', 'd2e1', 'd7e8', 'e1g1', 'e8g8', 'd1e1', 'd8e8', 'e1c1', 'e8c8']),
             ('4k3/8/8/8/8/8/8/R3K2Q w Q - 0 1', ['e1d2', 'e8d7', 'h1e1', 'd7d6', 'e1g1', 'd6d5', 'a1e1', 'd5d6', 'e1c1'])]
    jobs = [(f, m, random.Random(rng.randrange(1 << 30))) for f, m in fixed + games]
    nrep = 0
    seen = 0

    START = 'rnbqkbnr/pppppppp/8/8/8/8/PPPPPPPP/RNBQKBNR w KQkq - 0 1'
    walks = [(f, m, random.Random(rng.randrange(1 << 30)), f == START and k % 2 == 0) for k in range(3) for f, m in fixed + games if len(m) >= 2]

    # the same walks through the ENGINE BINARY ITSELF (engine/main.cpp: its own initialisation order and Uci construction), some of
    # them starting from the state the process comes up with (no `position` command first)
    real_walks = []
    try:
        import vbuild
        real = vbuild.build_engine('san')
        starts = [(f, m) for f, m in fixed + games if f == START and len(m) >= 2]
        nreal = 4 if ctx.tier == 'quick' else 60
        for k in range(nreal):
            f, m = starts[k % len(starts)] if starts else (fixed[0][0], fixed[0][1])
            real_walks.append((f, m, random.Random(rng.randrange(1 << 30)), True, real, k % 2 == 0))
        for f, m in (fixed + games)[:nreal]:
            if len(m) >= 2:
                real_walks.append((f, m, random.Random(rng.randrange(1 << 30)), f == START, real, False))
        ctx.count('uci_sessions_through_engine_main', len(real_walks))
    except Exception as e:
        ctx.notes.append('sessions through the engine binary (main.cpp) skipped: ' + str(e)[:300])

    def one(j):
        if len(j) == 6:
            return judge_walk(ctx, j[4], ctx.drv, j[0], j[1], j[2], j[3], initial=j[5])
        if len(j) == 4:
            return judge_walk(ctx, ctx.exe, ctx.drv, j[0], j[1], j[2], j[3])
        return judge_game(ctx, ctx.exe, ctx.drv, j[0], j[1], j[2], ctx.tier)
    with ThreadPoolExecutor(max_workers=max(2, (os.cpu_count() or 4) // 2)) as ex:
        for probs in ex.map(one, jobs + walks + real_walks):
            seen += 1
            ctx.cov['evaluations'] += 1
            ctx.count('uci_glue_sessions')
            for (p, what, rep) in probs:
                if p == pid and nrep < 3:
                    nrep += 1
                    V.report_violation(ctx, 'UCI front end: ' + what, rep, True, ident='uci-glue ' + what[:120])
    return seen


# ------------------------------------------------------------------------------------------- opening book through UCI
def poly_move(u):
    """Polyglot move word of a plain (non-castling) uci move"""
    f = (ord(u[0]) - 97) + 8 * (int(u[1]) - 1)
    t = (ord(u[2]) - 97) + 8 * (int(u[3]) - 1)
    promo = {'': 0, 'n': 1, 'b': 2, 'r': 3, 'q': 4}[u[4:5]]
    return (promo << 12) | ((f // 8) << 9) | ((f % 8) << 6) | ((t // 8) << 3) | (t % 8)


def spec_line_poly(drv, fen, moves):
    text = f'pos {fen}\ngen\n' + ''.join(f'do {m}\ngen\n' for m in moves)
    rc, M, S, err = V.run_lean(drv, text)
    st, gens = [], []
    for l in S:
        if l.startswith('fen='):
            d = V.parse_state(l)
            st.append((d['fen'], int(d['poly'], 16)))
        elif l.startswith('gen '):
            gens.append(sorted(r['uci'] for r in V.parse_moves(l)[1]))
    return list(zip(st, gens))


def judge_book(ctx, exe, drv, fen, moves, idx):
    line = spec_line_poly(drv, fen, moves)
    if len(line) != len(moves) + 1:
        return []
    # keep the prefix of plain moves (no castling: king moving two files; promotions are fine)
    k = 0
    for i, m in enumerate(moves):
        (f_i, key_i), legal_i = line[i]
        brd = f_i.split()[0]
        if m in ('e1g1', 'e1c1', 'e8g8', 'e8c8'):
            break
        k = i + 1
    k = min(k, 4)
    if k < 2:
        return []
    recs_main, recs_decoy = [], []
    for i in range(k):
        (f_i, key_i), legal_i = line[i]
        main = moves[i]
        recs_main.append(key_i.to_bytes(8, 'big') + poly_move(main).to_bytes(2, 'big') + (10).to_bytes(2, 'big') + bytes(4))
        others = [x for x in legal_i if x != main and x not in ('e1g1', 'e1c1', 'e8g8', 'e8c8')]
        if others:
            recs_decoy.append(key_i.to_bytes(8, 'big') + poly_move(others[0]).to_bytes(2, 'big') + (1).to_bytes(2, 'big') + bytes(4))
    d = os.path.join(V.VERIF, '.cache', 'books')
    os.makedirs(d, exist_ok=True)
    path = os.path.join(d, f'glue_{os.getpid()}_{idx}.bin')
    with open(path, 'wb') as fh:
        fh.write(b''.join(recs_main) + b''.join(recs_decoy))     # same key non-contiguous, heavier record first
    # the two options in either order (a GUI sends them in the order of its dialog): the policy must hold whichever comes first
    opts = [f'setoption name Polyglot Book value {path}', 'setoption name Polyglot Sample value best']
    if idx % 2 == 1:
        opts.reverse()
    cmds = opts + ['ucinewgame',
            f'position fen {fen}', 'go depth 1',
            f'moves {moves[0]}', 'go depth 1']
    exp = [(4, moves[0]), (6, moves[1])]
    if k >= 3:
        cmds += [f'position fen {fen} moves {moves[0]} {moves[1]}', 'go depth 1']
        exp.append((len(cmds) - 1, moves[2]))
    cmds += ['ucinewgame', f'position fen {fen}', 'go depth 1']
    exp.append((len(cmds) - 1, moves[0]))
    # a SECOND book replaces the first: it records only the decoy move for the first position, so that move must be answered now
    # (anything kept from the first book would still prefer the weight-10 move)
    path2 = None
    (f_0, key_0), legal_0 = line[0]
    others0 = [x for x in legal_0 if x != moves[0] and x not in ('e1g1', 'e1c1', 'e8g8', 'e8c8')]
    if others0:
        path2 = os.path.join(d, f'glue_{os.getpid()}_{idx}_b.bin')
        with open(path2, 'wb') as fh:
            fh.write(key_0.to_bytes(8, 'big') + poly_move(others0[0]).to_bytes(2, 'big') + (5).to_bytes(2, 'big') + bytes(4))
        cmds += [f'setoption name Polyglot Book value {path2}', f'position fen {fen}', 'go depth 1']
        exp.append((len(cmds) - 1, others0[0]))
    res, dead, stderr = run_script(exe, cmds)
    for pth in (path, path2):
        try:
            if pth:
                os.remove(pth)
        except OSError:
            pass
    script = '\n'.join(cmds) + '\n'
    hdr = ('# UCI session with an opening book: records (key from the rules-level Polyglot key, move, weight) = ' +
           ' '.join(f'[{line[i][0][1]:016x} {moves[i]} w10]' for i in range(k)) + ' followed by one weight-1 decoy per key\n')
    probs = []
    if dead:
        return [('C19', 'UCI book session: ' + dead, hdr + script)]
    for i, want in exp:
        c, lines, el = res[i] if i < len(res) else ('', [], None)
        b = [l.split()[1] for l in lines if l.startswith('bestmove') and len(l.split()) > 1]
        infos = [l for l in lines if l.startswith('info') and ' pv ' in l]
        if b != [want] or infos:
            what = (f'`{c}` (command #{i}) answered {b}' + (' after a search (the book was not used)' if infos else '') +
                    f'; the book holds {want} with the highest weight for this position')
            probs.append(('C19', what, hdr + script))
            probs.append(('C18', what, hdr + script))
            break
    return probs


def run_book(ctx, pid, ngames):
    from concurrent.futures import ThreadPoolExecutor
    games = [g for g in games_from(ctx, ngames * 3, 12, 5151) if len(g[1]) >= 3][:ngames]
    games = [('rnbqkbnr/pppppppp/8/8/8/8/PPPPPPPP/RNBQKBNR w KQkq - 0 1', ['e2e4', 'e7e5', 'g1f3', 'b8c6']),
             ('4k3/P7/8/8/8/8/7p/4K3 w - - 0 1', ['a7a8q', 'h2h1n', 'e1e2', 'e8e7'])] + games
    nrep = 0
    n = 0

    def one(a):
        i, (f, m) = a
        return judge_book(ctx, ctx.exe, ctx.drv, f, m, i)
    with ThreadPoolExecutor(max_workers=max(2, (os.cpu_count() or 4) // 2)) as ex:
        for probs in ex.map(one, list(enumerate(games))):
            n += 1
            ctx.cov['evaluations'] += 1
            ctx.count('uci_book_sessions')
            for (p, what, rep) in probs:
                if p == pid and nrep < 2:
                    nrep += 1
                    V.report_violation(ctx, 'UCI front end with a book: ' + what, rep, True, ident='uci-book ' + what[:100])
    return n
