// Implementation side of the CHESSPP_VERIF hooks (declared in /repo/engine/verif_hooks.h when present).
#pragma once
