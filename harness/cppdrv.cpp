// cppdrv — line-protocol driver around the real engine code (linked from /repo/engine/*.cpp).
// Built by tools/vcheck.py from the current /repo working tree with -DCHESSPP_VERIF and sanitizers.
// Prints one canonical line per scenario operation; the Lean driver prints the same lines from the model/spec.
#include <algorithm>
#include <array>
#include <atomic>
#include <cassert>
#include <chrono>
#include <cinttypes>
#include <cmath>
#include <condition_variable>
#include <cstdio>
#include <cstdlib>
#include <cstring>
#include <fstream>
#include <functional>
#include <iomanip>
#include <iostream>
#include <map>
#include <memory>
#include <mutex>
#include <optional>
#include <random>
#include <regex>
#include <sstream>
#include <string>
#include <thread>
#include <type_traits>
#include <unordered_map>
#include <sys/syscall.h>
#include <dlfcn.h>
#include <unistd.h>
#include <vector>

// read-only access to private state of the engine classes (no repo change needed)
#define private public
#define protected public
#include "bitboard.h"
#include "bithacks.h"
#include "endgame.h"
#include "hashmap.h"
#include "info.h"
#include "move_bitboards.h"
#include "movegen.h"
#include "polyglot.h"
#include "position.h"
#include "score.h"
#include "search.h"
#include "time_manager.h"
#include "transposition_table.h"
#include "types.h"
#include "uci.h"
#include "value.h"
#include "zobrist_hash.h"
#undef private
#undef protected

#include "verif_hooks_impl.h"

using namespace engine;

namespace engine
{
extern uint64_t PIECE_HASH[PIECE_NUM][SQUARE_NUM];
extern uint64_t CASTLING_HASH[1 << 4];
extern uint64_t SIDE_HASH;
extern uint64_t ENPASSANT_HASH[FILE_NUM];
// internals the harness reads are probed in the sources by tools/vbuild.py (VH_* defines): a refactoring that removes one of them
// costs only the checks that need it, not the whole harness
#ifdef VH_IMPORTANCE_FN
double importance(double x);
#endif
#ifdef VH_LMR_FN
int late_move_reduction(Depth depth, int move_number);
#endif
namespace bitbase { extern uint32_t BITBASE[]; }
}  // namespace engine

static uint64_t splitmix64(uint64_t& s)
{
    uint64_t z = (s += 0x9E3779B97F4A7C15ULL);
    z = (z ^ (z >> 30)) * 0xBF58476D1CE4E5B9ULL;
    z = (z ^ (z >> 27)) * 0x94D049BB133111EBULL;
    return z ^ (z >> 31);
}

static std::string hex(uint64_t v)
{
    char buf[32];
    snprintf(buf, sizeof buf, "%016" PRIx64, v);
    return buf;
}

// ---------------------------------------------------------------- dump tables
static void dump_tables()
{
    auto arr = [](const char* name, const uint64_t* p, size_t n) {
        printf("%s", name);
        for (size_t i = 0; i < n; ++i) printf(" %" PRIu64, p[i]);
        printf("\n");
    };
    auto arri = [](const char* name, const int* p, size_t n) {
        printf("%s", name);
        for (size_t i = 0; i < n; ++i) printf(" %d", p[i]);
        printf("\n");
    };
    arr("BISHOP_MAGICS", BISHOP_MAGICS, 64);
    arr("ROOK_MAGICS", ROOK_MAGICS, 64);
    arri("BISHOP_INDEX_BITS", BISHOP_INDEX_BITS, 64);
    arri("ROOK_INDEX_BITS", ROOK_INDEX_BITS, 64);
    arr("CASTLING_PATHS", CASTLING_PATHS, 16);
    arr("QUEEN_CASTLING_BLOCK", QUEEN_CASTLING_BLOCK, 2);
    printf("MAX_DEPTH %d\nMAX_PLIES %d\nMAX_MOVES %d\n", MAX_DEPTH, MAX_PLIES, MAX_MOVES);
#ifdef VH_MAX_PINS
    printf("MAX_PINS %d\n", MAX_PINS);
#else
    printf("MAX_PINS 0\n");   // no such array in this tree
#endif
    printf("STACK_INFO_SIZE %zu\n", std::tuple_size<StackInfo>::value);
    printf("PV_LIST_SIZE %zu\n", std::tuple_size<decltype(Info::_pv_list)>::value);
#ifdef VH_MOVE_LIST
    printf("MOVE_LIST_ROWS %zu\n", sizeof(MOVE_LIST) / sizeof(MOVE_LIST[0]));
#else
    printf("MOVE_LIST_ROWS 0\n");
#endif
    printf("SEARCHMOVES_CAP %zu\n", sizeof(Limits::searchmoves) / sizeof(Move));
    printf("PIECE_LIST_CAP %zu\n", sizeof(Position::_piece_position[0]) / sizeof(Square));
    printf("STOP_FLAG_ATOMIC %d\n", (int)std::is_same_v<decltype(Search::stop_search), std::atomic<bool>>);
    printf("VALUE_NONE %" PRId64 "\nVALUE_INFINITE %" PRId64 "\nVALUE_MATE %" PRId64 "\nVALUE_KNOWN_WIN %" PRId64
           "\nVALUE_ALL_PIECES %" PRId64 "\nVALUE_POSITIVE_DRAW %" PRId64 "\nVALUE_DRAW %" PRId64 "\n",
           VALUE_NONE, VALUE_INFINITE, VALUE_MATE, VALUE_KNOWN_WIN, VALUE_ALL_PIECES, VALUE_POSITIVE_DRAW, VALUE_DRAW);
    printf("PIECE_VALUE_MG");
    for (int i = 0; i < 7; ++i) printf(" %" PRId64, PIECE_VALUE[i].mg);
    printf("\nPIECE_VALUE_EG");
    for (int i = 0; i < 7; ++i) printf(" %" PRId64, PIECE_VALUE[i].eg);
    printf("\n");
    // evaluator constants of value.h, as compiled (the model's Model/Eval.lean reads them from Gen/EvalConsts.lean)
    {
        auto sc = [](const char* name, const Score& v) { printf("EVALSC_%s %" PRId64 " %" PRId64 "\n", name, (int64_t)v.mg, (int64_t)v.eg); };
        auto scarr = [](const char* name, const Score* v, int n) {
            printf("EVALARR_%s_MG", name); for (int i = 0; i < n; ++i) printf(" %" PRId64, (int64_t)v[i].mg); printf("\n");
            printf("EVALARR_%s_EG", name); for (int i = 0; i < n; ++i) printf(" %" PRId64, (int64_t)v[i].eg); printf("\n");
        };
        auto varr = [](const char* name, const Value* v, int n) {
            printf("EVALVAL_%s", name); for (int i = 0; i < n; ++i) printf(" %" PRId64, (int64_t)v[i]); printf("\n");
        };
        scarr("MOBILITY_BONUS", MOBILITY_BONUS, 7);
        scarr("CONTROL_SPACE", CONTROL_SPACE, 7);
        scarr("KING_PROTECTOR_PENALTY", KING_PROTECTOR_PENALTY, 7);
        scarr("KING_ATTACKER_PENALTY", KING_ATTACKER_PENALTY, 7);
        varr("PASSED_PAWN_RANK_WEIGHT", PASSED_PAWN_RANK_WEIGHT, 8);
        varr("CONNECTED_PAWNS_BONUS", CONNECTED_PAWNS_BONUS, 8);
#define EVSC(n) sc(#n, n)
        EVSC(ROOK_SEMIOPEN_FILE_BONUS); EVSC(ROOK_OPEN_FILE_BONUS); EVSC(TRAPPED_ROOK_PENALTY); EVSC(BISHOP_PAIR_BONUS);
        EVSC(CONNECTED_ROOKS_BONUS); EVSC(OUTPOST_KNIGHT_BONUS); EVSC(OUTPOST_BISHOP_BONUS); EVSC(PAWN_CONTROL_CENTER_BONUS);
        EVSC(PASSED_PAWN_BONUS); EVSC(DOUBLE_PAWN_PENALTY); EVSC(BACKWARD_PAWN_PENALTY); EVSC(ISOLATED_PAWN_PENALTY);
        EVSC(KING_SAFETY_BONUS); EVSC(SAFE_KNIGHT); EVSC(CONTROL_CENTER_KNIGHT); EVSC(VULNERABLE_QUEEN_PENALTY);
        EVSC(WEAK_BACKRANK_PENALTY); EVSC(WEAK_KING_DIAGONALS); EVSC(WEAK_KING_LINES); EVSC(KING_PAWN_PROXIMITY_PENALTY);
        EVSC(PAWNS_ON_SAME_COLOR_AS_BISHOP_PENALTY);
#undef EVSC
    }
    // Polyglot randoms as the built code uses them: key of a one-piece position, Black to move (no turn key)
    const char pcs[] = " PNBRQKpnbrqk";
    for (int pc = 1; pc <= 12; ++pc)
    {
        printf("POLYGLOT_PIECE_%d", pc);
        for (int sq = 0; sq < 64; ++sq)
        {
            std::string fen;
            for (int r = 7; r >= 0; --r)
            {
                int run = 0;
                for (int f = 0; f < 8; ++f)
                {
                    if (r * 8 + f == sq) { if (run) fen += char('0' + run); run = 0; fen += pcs[pc]; }
                    else run++;
                }
                if (run) fen += char('0' + run);
                if (r) fen += '/';
            }
            fen += " b - - 0 1";
            Position p(fen);
            printf(" %" PRIu64, PolyglotBook::hash(p));
        }
        printf("\n");
    }
    {
        Position e("8/8/8/8/8/8/8/8 b - - 0 1");
        uint64_t base = PolyglotBook::hash(e);
        printf("POLYGLOT_EMPTY_BLACK %" PRIu64 "\n", base);
        printf("POLYGLOT_TURN %" PRIu64 "\n", PolyglotBook::hash(Position("8/8/8/8/8/8/8/8 w - - 0 1")));
        const char* rights[4] = {"K", "Q", "k", "q"};
        printf("POLYGLOT_CASTLING");
        for (auto r : rights) printf(" %" PRIu64, PolyglotBook::hash(Position(std::string("8/8/8/8/8/8/8/8 b ") + r + " - 0 1")));
        printf("\nPOLYGLOT_ENPASSANT");
        // white to move, white pawn next to the ep square's pushed pawn: isolate the ep random
        for (int f = 0; f < 8; ++f)
        {
            // black pawn just pushed to rank 5 on file f, white pawn beside it (file f±1) on rank 5
            int g = f == 7 ? 6 : f + 1;
            std::string row(8, '1');
            row[f] = 'p'; row[g] = 'P';
            std::string fenrow;
            int run = 0;
            for (char c : row) { if (c == '1') run++; else { if (run) fenrow += char('0' + run); run = 0; fenrow += c; } }
            if (run) fenrow += char('0' + run);
            std::string base_fen = "8/8/8/" + fenrow + "/8/8/8/8 w - ";
            uint64_t with = PolyglotBook::hash(Position(base_fen + char('a' + f) + "6 0 1"));
            uint64_t without = PolyglotBook::hash(Position(base_fen + "- 0 1"));
            printf(" %" PRIu64, with ^ without);
        }
        printf("\n");
    }
    printf("LMR");
#ifdef VH_LMR_FN
    for (int m = 1; m <= 70; ++m) printf(" %d", late_move_reduction(5, m));
#else
    for (int m = 1; m <= 70; ++m) printf(" 0");
#endif
    printf("\n");
    printf("IMPORTANCE_BITS");
    for (int x = 0; x <= 1500; ++x)
    {
#ifdef VH_IMPORTANCE_FN
        double d = importance((double)x);
#else
        double d = 0.0;
#endif
        uint64_t u; memcpy(&u, &d, 8);
        printf(" %" PRIu64, u);
    }
    printf("\n");
    {
        std::ostringstream os;
        // the regex text is not recoverable from std::regex; the harness records match behaviour instead (see `sanre` op)
    }
    printf("BITBASE");
    for (int i = 0; i < 2 * 24 * 64 * 64 / 32; ++i) printf(" %u", bitbase::BITBASE[i]);
    printf("\n");
    printf("END\n");
}

// ---------------------------------------------------------------- helpers
static std::string sync_check(const Position& p)
{
    // the three redundant representations must describe the same placement
    Bitboard byc[2] = {0, 0}, byk[7] = {0, 0, 0, 0, 0, 0, 0};
    int cnt[13] = {0};
    for (int s = 0; s < 64; ++s)
    {
        Piece pc = p._board[s];
        if (pc == NO_PIECE) continue;
        if (pc > 12) return "board-bad-piece";
        byc[get_color(pc)] |= square_bb(Square(s));
        byk[get_piece_kind(pc)] |= square_bb(Square(s));
        cnt[pc]++;
    }
    for (int c = 0; c < 2; ++c) if (byc[c] != p._by_color_bb[c]) return "color-bb";
    for (int k = 1; k < 7; ++k) if (byk[k] != p._by_piece_kind_bb[k]) return "kind-bb";
    for (int pc = 1; pc <= 12; ++pc)
    {
        if (cnt[pc] != p._piece_count[pc]) return "piece-count";
        if (cnt[pc] > 10) return "piece-count>10";
        Bitboard seen = 0;
        for (int i = 0; i < cnt[pc]; ++i)
        {
            Square s = p._piece_position[pc][i];
            if (s >= 64 || p._board[s] != Piece(pc)) return "piece-list";
            if (seen & square_bb(s)) return "piece-list-dup";
            seen |= square_bb(s);
        }
    }
    return "ok";
}

static std::string rawlists(const Position& p)
{
    std::ostringstream os;
    for (int pc = 1; pc <= 12; ++pc)
    {
        os << pc << ":";
        for (int i = 0; i < p._piece_count[pc]; ++i) os << (i ? "," : "") << int(p._piece_position[pc][i]);
        os << ";";
    }
    return os.str();
}

struct Ctx
{
    Position pos;
    std::vector<std::pair<Move, MoveInfo>> stack;  // NO_MOVE = null move
    std::unique_ptr<PositionScorer> warm;
    PolyglotBook book;
};

static std::string state_line(Ctx& c)
{
    Position& p = c.pos;
    std::ostringstream os;
    std::string f = p.fen();
    os << "fen=" << f;
    os << "|key=" << hex(p.hash()) << "|pkey=" << hex(p.pawn_hash());
    {
        Position fresh(f);
        os << "|fkey=" << hex(fresh.hash()) << "|fpkey=" << hex(fresh.pawn_hash()) << "|ffen=" << fresh.fen();
    }
    os << "|chk=" << p.is_in_check(p.color()) << "|mate=" << p.is_checkmate() << "|stale=" << p.is_stalemate()
       << "|rep=" << p.is_repeated() << "|three=" << p.threefold_repetition() << "|r50=" << p.rule50()
       << "|mat=" << p.enough_material() << "|draw=" << p.is_draw();
    os << "|poly=" << hex(PolyglotBook::hash(p));
    os << "|hist=" << p._history_counter;
    os << "|sync=" << sync_check(p);
    return os.str();
}

static std::string moves_line(Ctx& c)
{
    Position& p = c.pos;
    Move list[MAX_MOVES];
    Move* end = generate_moves(p, p.color(), list);
    int n = int(end - list);
    struct Row { std::string uci; Move m; std::string txt; };
    std::vector<Row> rows;
    for (int i = 0; i < n; ++i)
    {
        Move m = list[i];
        Row r;
        r.m = m;
        r.uci = p.uci(m);
        std::string san = p.san(m);
        Move back = p.parse_uci(r.uci);
        Move sback = p.parse_san(san);
        std::ostringstream os;
        os << r.uci << ":" << m << ":" << san << ":" << p.move_is_capture(m) << p.move_is_quiet(m) << p.move_gives_check(m)
           << ":" << (back == m) << (sback == m);
        r.txt = os.str();
        rows.push_back(r);
    }
    std::sort(rows.begin(), rows.end(), [](const Row& a, const Row& b) { return a.uci != b.uci ? a.uci < b.uci : a.m < b.m; });
    int dup = 0;
    for (size_t i = 1; i < rows.size(); ++i) if (rows[i].m == rows[i - 1].m) dup++;
    std::ostringstream os;
    os << "moves n=" << n << " dup=" << dup;
    for (auto& r : rows) os << " " << r.txt;
    return os.str();
}

static std::string gen_line(Ctx& c)
{
    Position& p = c.pos;
    Move list[MAX_MOVES];
    Move* end = generate_moves(p, p.color(), list);
    int n = int(end - list);
    std::vector<std::pair<std::string, Move>> rows;
    for (int i = 0; i < n; ++i) rows.push_back({p.uci(list[i]), list[i]});
    std::sort(rows.begin(), rows.end());
    int dup = 0;
    for (size_t i = 1; i < rows.size(); ++i) if (rows[i].second == rows[i - 1].second) dup++;
    std::ostringstream os;
    os << "gen n=" << n << " dup=" << dup;
    for (auto& r : rows) os << " " << r.first;
    return os.str();
}

static uint64_t perft_do(Position& p, int d)
{
    if (d == 0) return 1;
    Move list[MAX_MOVES];
    Move* end = generate_moves(p, p.color(), list);
    if (d == 1) return end - list;
    uint64_t s = 0;
    for (Move* it = list; it != end; ++it)
    {
        MoveInfo mi = p.do_move(*it);
        s += perft_do(p, d - 1);
        p.undo_move(*it, mi);
    }
    return s;
}

static int g_park_point = -1, g_park_nth = 1, g_park_ms = 0;
static std::atomic<int> g_park_count[8];
static void park_sched(int point)
{
    if (point < 0 || point >= 8) return;
    int n = ++g_park_count[point];
    if (point == g_park_point && n == g_park_nth)
    {
        fprintf(stderr, "PARKED point=%d nth=%d\n", point, n);
        std::this_thread::sleep_for(std::chrono::milliseconds(g_park_ms));
    }
}

// ---- clock interposition: every clock read of a non-main thread (the search thread) is a schedule point.  VERIF_PARK="9:nth:ms"
// parks the search thread right AFTER it has read the clock for the nth time (it reports PARKED, the driver sends `stop`, the thread
// then goes on with the stale time value): code that decides about stopping from a clock read must not lose a stop that lands there.
static std::thread::id g_main_thread;
static std::atomic<int> g_clock_reads{0};
static int g_clock_nth = -1, g_clock_ms = 0;
namespace std { namespace chrono { inline namespace _V2 {
steady_clock::time_point steady_clock::now() noexcept
{
    timespec ts;
    clock_gettime(CLOCK_MONOTONIC, &ts);
    time_point t(duration(std::chrono::seconds(ts.tv_sec) + std::chrono::nanoseconds(ts.tv_nsec)));
    if (g_clock_nth > 0 && std::this_thread::get_id() != g_main_thread)
    {
        int n = ++g_clock_reads;
        if (n == g_clock_nth)
        {
            fprintf(stderr, "PARKED point=clock nth=%d\n", n);
            timespec req{g_clock_ms / 1000, (g_clock_ms % 1000) * 1000000L};
            nanosleep(&req, nullptr);
        }
    }
    return t;
}
}}}

// ---- output interposition: the moment a `bestmove` line has become visible to the GUI is a schedule point of the thread that wrote it.
// std::cout is synchronised with stdio here, so the text goes through fwrite into the C stream and becomes visible at the fflush that
// std::endl performs.  VERIF_PARK="8:1:ms" parks the writing thread right AFTER that flush (it reports PARKED on stderr), so that the
// GUI's next command arrives while the thread has not yet done whatever it does after answering.
static int g_afterbest_ms = 0;
static thread_local bool t_best_pending = false;
extern "C" size_t fwrite(const void* buf, size_t sz, size_t n, FILE* f)
{
    static auto real = reinterpret_cast<size_t (*)(const void*, size_t, size_t, FILE*)>(dlsym(RTLD_NEXT, "fwrite"));
    if (g_afterbest_ms > 0 && f == stdout && sz * n >= 8 && memmem(buf, sz * n, "bestmove", 8) != nullptr)
        t_best_pending = true;
    return real(buf, sz, n, f);
}
extern "C" int fflush(FILE* f)
{
    static auto real = reinterpret_cast<int (*)(FILE*)>(dlsym(RTLD_NEXT, "fflush"));
    int r = real(f);
    if (t_best_pending && (f == stdout || f == nullptr))
    {
        t_best_pending = false;
        static std::atomic<int> once{0};
        if (std::this_thread::get_id() != g_main_thread && once++ == 0)
        {
            const char msg[] = "PARKED point=afterbest\n";
            (void)!syscall(SYS_write, 2, msg, sizeof msg - 1);
            timespec req{g_afterbest_ms / 1000, (g_afterbest_ms % 1000) * 1000000L};
            nanosleep(&req, nullptr);
        }
    }
    return r;
}

#include "cppdrv_search.inc"

int main(int argc, char** argv)
{
    std::ios::sync_with_stdio(true);
    g_main_thread = std::this_thread::get_id();
    move_bitboards::init();
    zobrist::init();
    bitbase::init();
    endgame::init();

    std::string mode = argc > 1 ? argv[1] : "run";
    if (mode == "dump") { dump_tables(); return 0; }
    if (mode == "uci")
    {
        // the real two-thread UCI front end; VERIF_PARK="point:nth:ms" parks the search thread at a schedule point
        if (const char* e = getenv("VERIF_PARK"))
        {
            sscanf(e, "%d:%d:%d", &g_park_point, &g_park_nth, &g_park_ms);
            if (g_park_point == 9) { g_clock_nth = g_park_nth; g_clock_ms = g_park_ms; g_park_point = -1; }
            else if (g_park_point == 8) { g_afterbest_ms = g_park_ms; g_park_point = -1; }
            else verif::sched_fn = park_sched;
        }
        Uci u; u.loop();
        // give a detached search thread the chance to finish printing before the process exits
        std::this_thread::sleep_for(std::chrono::milliseconds(50));
        return 0;
    }

    Ctx c;
    std::string line;
    long lineno = 0;
    while (std::getline(std::cin, line))
    {
        ++lineno;
        if (line.empty() || line[0] == '#') { std::cout << line << "\n"; continue; }
        std::istringstream is(line);
        std::string op;
        is >> op;
        if (op == "ztab")
        {
            uint64_t seed; is >> seed;
            uint64_t s = seed;
            for (int pc = 0; pc < 13; ++pc) for (int sq = 0; sq < 64; ++sq) PIECE_HASH[pc][sq] = splitmix64(s);
            for (int i = 0; i < 16; ++i) CASTLING_HASH[i] = splitmix64(s);
            SIDE_HASH = splitmix64(s);
            for (int f = 0; f < 8; ++f) ENPASSANT_HASH[f] = splitmix64(s);
            std::cout << "ztab ok\n";
        }
        else if (op == "zcheck")
        {
            // the engine's OWN tables (as zobrist::init() left them): every cell a key can XOR in must be
            // non-zero and pairwise distinct, otherwise different positions collide systematically
            std::vector<uint64_t> v;
            for (int pc = 1; pc < 13; ++pc) for (int sq = 0; sq < 64; ++sq) v.push_back(PIECE_HASH[pc][sq]);
            for (int i = 0; i < 16; ++i) v.push_back(CASTLING_HASH[i]);
            v.push_back(SIDE_HASH);
            for (int f = 0; f < 8; ++f) v.push_back(ENPASSANT_HASH[f]);
            bool nonzero = std::all_of(v.begin(), v.end(), [](uint64_t x) { return x != 0; });
            size_t n = v.size();
            std::sort(v.begin(), v.end());
            bool distinct = std::adjacent_find(v.begin(), v.end()) == v.end();
            std::cout << "zcheck distinct=" << distinct << " nonzero=" << nonzero << " n=" << n << "\n";
        }
        else if (op == "pos")
        {
            std::string fen; std::getline(is, fen);
            while (!fen.empty() && fen[0] == ' ') fen.erase(0, 1);
            c.pos = Position(fen);
            c.stack.clear();
            std::cout << state_line(c) << "\n";
        }
        else if (op == "do")
        {
            std::string u; is >> u;
            Move m = c.pos.parse_uci(u);
            MoveInfo mi = c.pos.do_move(m);
            c.stack.push_back({m, mi});
            std::cout << state_line(c) << "\n";
        }
        else if (op == "undo")
        {
            if (c.stack.empty()) { std::cout << "err empty\n"; continue; }
            auto [m, mi] = c.stack.back(); c.stack.pop_back();
            if (m == NO_MOVE) c.pos.undo_null_move(mi); else c.pos.undo_move(m, mi);
            std::cout << state_line(c) << "\n";
        }
        else if (op == "null")
        {
            MoveInfo mi = c.pos.do_null_move();
            c.stack.push_back({NO_MOVE, mi});
            std::cout << state_line(c) << "\n";
        }
        else if (op == "state") std::cout << state_line(c) << "\n";
        else if (op == "raw") std::cout << "raw " << rawlists(c.pos) << "\n";
        else if (op == "gen") std::cout << gen_line(c) << "\n";
        else if (op == "moves") std::cout << moves_line(c) << "\n";
        else if (op == "perft")
        {
            int d; is >> d;
            std::cout << "perft " << d << " " << perft_do(c.pos, d) << "\n";
        }
        else if (!extra_op(c, op, is, line))
            std::cout << "err unknown-op " << op << "\n";
    }
    return 0;
}
